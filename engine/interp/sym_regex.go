package interp

// regexp intrinsic: the pattern is whatever the interpreted code passes to
// regexp.MustCompile (so it follows the source); matching over symbolic subjects is a
// priority-ordered backtracking matcher (= Go's leftmost-first semantics) that forks
// on each character-class test of a symbolic byte.  Concrete subjects use native regexp.

import (
	"fmt"
	"go/token"
	"regexp"
	"regexp/syntax"
	"unicode"
)

type rxObj struct {
	re    *regexp.Regexp
	syn   *syntax.Regexp
	ncap  int
	names []string
}

func compileRx(pat string) (*rxObj, error) {
	re, err := regexp.Compile(pat)
	if err != nil {
		return nil, err
	}
	syn, err := syntax.Parse(pat, syntax.Perl)
	if err != nil {
		return nil, err
	}
	ncap := syn.MaxCap()
	syn = syn.Simplify()
	return &rxObj{re: re, syn: syn, ncap: ncap, names: re.SubexpNames()}, nil
}

type rxMatcher struct {
	i    *interpreter
	s    []value
	caps []int
	fuel int
}

func isWordByteTerm(i *interpreter, b value) *term {
	t := i.termOf(b)
	ts := i.ps.ts
	r := ts.or(i.rangeTerm(t, 'a', 'z'), i.rangeTerm(t, 'A', 'Z'))
	r = ts.or(r, i.rangeTerm(t, '0', '9'))
	return ts.or(r, ts.eq(t, ts.constBV(t.srt, '_')))
}

// classTerm: the rune at s[pos] (symbolic bytes are ASCII) is in the rune ranges.
func (m *rxMatcher) inRanges(pos int, ranges []rune, fold bool) (bool, int) {
	b := m.s[pos]
	if x, ok := b.(sym); ok {
		ts := m.i.ps.ts
		c := ts.constBool(false)
		for k := 0; k+1 < len(ranges); k += 2 {
			lo, hi := ranges[k], ranges[k+1]
			if lo > 0x7f {
				continue
			}
			if hi > 0x7f {
				hi = 0x7f
			}
			c = ts.or(c, m.i.rangeTerm(x.t, uint64(lo), uint64(hi)))
		}
		return m.i.ps.branch(c), 1
	}
	r, n := m.i.runeAt(m.s, pos)
	rr := r.(int32)
	for k := 0; k+1 < len(ranges); k += 2 {
		if ranges[k] <= rr && rr <= ranges[k+1] {
			return true, n
		}
	}
	return false, n
}

func (m *rxMatcher) litRune(pos int, r rune, fold bool) (bool, int) {
	if pos >= len(m.s) {
		return false, 0
	}
	if !fold {
		return m.inRanges(pos, []rune{r, r}, false)
	}
	var rs []rune
	rs = append(rs, r, r)
	for f := unicode.SimpleFold(r); f != r; f = unicode.SimpleFold(f) {
		rs = append(rs, f, f)
	}
	return m.inRanges(pos, rs, false)
}

func (m *rxMatcher) match(re *syntax.Regexp, pos int, k func(int) bool) bool {
	m.fuel--
	if m.fuel < 0 {
		panic(pathAbort{"regex matcher budget exceeded"})
	}
	switch re.Op {
	case syntax.OpNoMatch:
		return false
	case syntax.OpEmptyMatch:
		return k(pos)
	case syntax.OpLiteral:
		p := pos
		for _, r := range re.Rune {
			ok, n := m.litRune(p, r, re.Flags&syntax.FoldCase != 0)
			if !ok {
				return false
			}
			p += n
		}
		return k(p)
	case syntax.OpCharClass:
		if pos >= len(m.s) {
			return false
		}
		ok, n := m.inRanges(pos, re.Rune, false)
		if !ok {
			return false
		}
		return k(pos + n)
	case syntax.OpAnyCharNotNL:
		if pos >= len(m.s) {
			return false
		}
		ok, n := m.inRanges(pos, []rune{'\n', '\n'}, false)
		if ok {
			return false
		}
		return k(pos + n)
	case syntax.OpAnyChar:
		if pos >= len(m.s) {
			return false
		}
		_, n := m.inRanges(pos, []rune{0, 0}, false)
		return k(pos + n)
	case syntax.OpBeginText:
		if pos != 0 {
			return false
		}
		return k(pos)
	case syntax.OpEndText:
		if pos != len(m.s) {
			return false
		}
		return k(pos)
	case syntax.OpBeginLine:
		if pos == 0 {
			return k(pos)
		}
		if m.i.ps.branch(m.i.ps.ts.eq(m.i.termOf(m.s[pos-1]), m.i.ps.ts.constBV(8, '\n'))) {
			return k(pos)
		}
		return false
	case syntax.OpEndLine:
		if pos == len(m.s) {
			return k(pos)
		}
		if m.i.ps.branch(m.i.ps.ts.eq(m.i.termOf(m.s[pos]), m.i.ps.ts.constBV(8, '\n'))) {
			return k(pos)
		}
		return false
	case syntax.OpWordBoundary, syntax.OpNoWordBoundary:
		before, after := false, false
		if pos > 0 {
			before = m.i.ps.branch(isWordByteTerm(m.i, m.s[pos-1]))
		}
		if pos < len(m.s) {
			after = m.i.ps.branch(isWordByteTerm(m.i, m.s[pos]))
		}
		if (before != after) == (re.Op == syntax.OpWordBoundary) {
			return k(pos)
		}
		return false
	case syntax.OpCapture:
		old0, old1 := m.caps[2*re.Cap], m.caps[2*re.Cap+1]
		ok := m.match(re.Sub[0], pos, func(p int) bool {
			s0, s1 := m.caps[2*re.Cap], m.caps[2*re.Cap+1]
			m.caps[2*re.Cap], m.caps[2*re.Cap+1] = pos, p
			if k(p) {
				return true
			}
			m.caps[2*re.Cap], m.caps[2*re.Cap+1] = s0, s1
			return false
		})
		if !ok {
			m.caps[2*re.Cap], m.caps[2*re.Cap+1] = old0, old1
		}
		return ok
	case syntax.OpConcat:
		return m.concat(re.Sub, pos, k)
	case syntax.OpAlternate:
		for _, sub := range re.Sub {
			if m.match(sub, pos, k) {
				return true
			}
		}
		return false
	case syntax.OpQuest:
		if re.Flags&syntax.NonGreedy != 0 {
			return k(pos) || m.match(re.Sub[0], pos, k)
		}
		return m.match(re.Sub[0], pos, k) || k(pos)
	case syntax.OpStar:
		return m.star(re, pos, k)
	case syntax.OpPlus:
		return m.match(re.Sub[0], pos, func(p int) bool {
			if p == pos {
				return k(p)
			}
			return m.star(re, p, k)
		})
	case syntax.OpRepeat:
		// Simplify() removes OpRepeat except in degenerate cases
		panic(pathAbort{"unsupported: regexp OpRepeat"})
	}
	panic(pathAbort{fmt.Sprintf("unsupported: regexp op %v", re.Op)})
}

func (m *rxMatcher) star(re *syntax.Regexp, pos int, k func(int) bool) bool {
	more := func() bool {
		return m.match(re.Sub[0], pos, func(p int) bool {
			if p == pos {
				return false // empty iteration: stop
			}
			return m.star(re, p, k)
		})
	}
	if re.Flags&syntax.NonGreedy != 0 {
		return k(pos) || more()
	}
	return more() || k(pos)
}

func (m *rxMatcher) concat(subs []*syntax.Regexp, pos int, k func(int) bool) bool {
	if len(subs) == 0 {
		return k(pos)
	}
	return m.match(subs[0], pos, func(p int) bool { return m.concat(subs[1:], p, k) })
}

// findAt finds the leftmost match starting at or after from. Returns capture indices or nil.
func (i *interpreter) rxFind(rx *rxObj, s []value, from int) []int {
	i.requireASCII(s)
	for st := from; st <= len(s); st++ {
		m := &rxMatcher{i: i, s: s, caps: make([]int, 2*(rx.ncap+1)), fuel: 200000}
		for k := range m.caps {
			m.caps[k] = -1
		}
		var res []int
		ok := m.match(rx.syn, st, func(p int) bool {
			m.caps[0], m.caps[1] = st, p
			res = append([]int{}, m.caps...)
			return true
		})
		if ok {
			return res
		}
	}
	return nil
}

func rxOf(v value) *rxObj { return (*(v.(*value))).(*rxObj) }

func subStr(s []value, a, b int) value {
	if a < 0 {
		return ""
	}
	return mkStr(s[a:b:b])
}

func init() {
	ext := func(name string, f externalFn) { externals[name] = f }
	compile := func(fr *frame, a []value) (value, error) {
		rx, err := compileRx(fr.i.concStr(a[0]))
		if err != nil {
			return nil, err
		}
		v := value(rx)
		return &v, nil
	}
	ext("regexp.MustCompile", func(fr *frame, a []value) value {
		v, err := compile(fr, a)
		if err != nil {
			panic(targetPanic{iface{t: nil, v: "regexp: Compile: " + err.Error()}})
		}
		return v
	})
	ext("regexp.Compile", func(fr *frame, a []value) value {
		v, err := compile(fr, a)
		if err != nil {
			return tuple{(*value)(nil), fr.i.mkError(fr, err.Error())}
		}
		return tuple{v, iface{}}
	})
	ext("regexp.QuoteMeta", func(fr *frame, a []value) value { return regexp.QuoteMeta(fr.i.concStr(a[0])) })
	ext("regexp.MatchString", func(fr *frame, a []value) value {
		rx, err := compileRx(fr.i.concStr(a[0]))
		if err != nil {
			return tuple{false, fr.i.mkError(fr, err.Error())}
		}
		if s, ok := a[1].(string); ok {
			return tuple{rx.re.MatchString(s), iface{}}
		}
		return tuple{fr.i.rxFind(rx, strBytes(a[1]), 0) != nil, iface{}}
	})
	ext("(*regexp.Regexp).String", func(fr *frame, a []value) value { return rxOf(a[0]).re.String() })
	ext("(*regexp.Regexp).NumSubexp", func(fr *frame, a []value) value { return rxOf(a[0]).re.NumSubexp() })
	ext("(*regexp.Regexp).SubexpNames", func(fr *frame, a []value) value { return valStrs(rxOf(a[0]).names) })
	ext("(*regexp.Regexp).SubexpIndex", func(fr *frame, a []value) value {
		return rxOf(a[0]).re.SubexpIndex(fr.i.concStr(a[1]))
	})
	ext("(*regexp.Regexp).MatchString", func(fr *frame, a []value) value {
		rx := rxOf(a[0])
		if s, ok := a[1].(string); ok {
			return rx.re.MatchString(s)
		}
		return fr.i.rxFind(rx, strBytes(a[1]), 0) != nil
	})
	ext("(*regexp.Regexp).Match", func(fr *frame, a []value) value {
		rx := rxOf(a[0])
		return fr.i.rxFind(rx, a[1].([]value), 0) != nil
	})
	ext("(*regexp.Regexp).FindString", func(fr *frame, a []value) value {
		rx := rxOf(a[0])
		if s, ok := a[1].(string); ok {
			return rx.re.FindString(s)
		}
		s := strBytes(a[1])
		m := fr.i.rxFind(rx, s, 0)
		if m == nil {
			return ""
		}
		return subStr(s, m[0], m[1])
	})
	ext("(*regexp.Regexp).FindStringIndex", func(fr *frame, a []value) value {
		rx := rxOf(a[0])
		var m []int
		if s, ok := a[1].(string); ok {
			m = rx.re.FindStringIndex(s)
		} else {
			m = fr.i.rxFind(rx, strBytes(a[1]), 0)
		}
		if m == nil {
			return []value(nil)
		}
		return []value{m[0], m[1]}
	})
	ext("(*regexp.Regexp).FindStringSubmatch", func(fr *frame, a []value) value {
		rx := rxOf(a[0])
		if s, ok := a[1].(string); ok {
			return valStrs(rx.re.FindStringSubmatch(s))
		}
		s := strBytes(a[1])
		m := fr.i.rxFind(rx, s, 0)
		if m == nil {
			return []value(nil)
		}
		out := make([]value, len(m)/2)
		for k := range out {
			out[k] = subStr(s, m[2*k], m[2*k+1])
		}
		return out
	})
	ext("(*regexp.Regexp).FindStringSubmatchIndex", func(fr *frame, a []value) value {
		rx := rxOf(a[0])
		var m []int
		if s, ok := a[1].(string); ok {
			m = rx.re.FindStringSubmatchIndex(s)
		} else {
			m = fr.i.rxFind(rx, strBytes(a[1]), 0)
		}
		if m == nil {
			return []value(nil)
		}
		out := make([]value, len(m))
		for k := range out {
			out[k] = m[k]
		}
		return out
	})
	// all iterates over successive non-overlapping matches like regexp.allMatches
	all := func(i *interpreter, rx *rxObj, s []value, n int, f func(m []int)) {
		if n < 0 {
			n = len(s) + 1
		}
		pos, prevEnd, cnt := 0, -1, 0
		for cnt < n && pos <= len(s) {
			m := i.rxFind(rx, s, pos)
			if m == nil {
				break
			}
			accept := true
			if m[1] == m[0] { // empty match
				if m[0] == prevEnd {
					accept = false
				}
				pos = m[1] + 1
			} else {
				pos = m[1]
			}
			prevEnd = m[1]
			if accept {
				f(m)
				cnt++
			}
		}
	}
	ext("(*regexp.Regexp).FindAllString", func(fr *frame, a []value) value {
		rx := rxOf(a[0])
		n := int(fr.i.concIntVal(a[2]))
		if s, ok := a[1].(string); ok {
			return valStrs(rx.re.FindAllString(s, n))
		}
		s := strBytes(a[1])
		var out []value
		all(fr.i, rx, s, n, func(m []int) { out = append(out, subStr(s, m[0], m[1])) })
		return out
	})
	ext("(*regexp.Regexp).FindAllStringSubmatch", func(fr *frame, a []value) value {
		rx := rxOf(a[0])
		n := int(fr.i.concIntVal(a[2]))
		s := strBytes(a[1])
		var out []value
		all(fr.i, rx, s, n, func(m []int) {
			g := make([]value, len(m)/2)
			for k := range g {
				g[k] = subStr(s, m[2*k], m[2*k+1])
			}
			out = append(out, g)
		})
		return out
	})
	ext("(*regexp.Regexp).FindAllStringIndex", func(fr *frame, a []value) value {
		rx := rxOf(a[0])
		n := int(fr.i.concIntVal(a[2]))
		s := strBytes(a[1])
		var out []value
		all(fr.i, rx, s, n, func(m []int) { out = append(out, []value{m[0], m[1]}) })
		return out
	})
	ext("(*regexp.Regexp).ReplaceAllStringFunc", func(fr *frame, a []value) value {
		rx := rxOf(a[0])
		s := strBytes(a[1])
		var out []value
		last := 0
		all(fr.i, rx, s, -1, func(m []int) {
			out = append(out, s[last:m[0]]...)
			r := call(fr.i, fr, token.NoPos, a[2], []value{subStr(s, m[0], m[1])})
			out = append(out, strBytes(r)...)
			last = m[1]
		})
		out = append(out, s[last:]...)
		return mkStr(out)
	})
	ext("(*regexp.Regexp).ReplaceAllString", func(fr *frame, a []value) value {
		rx := rxOf(a[0])
		repl := fr.i.concStr(a[2])
		if s, ok := a[1].(string); ok {
			return rx.re.ReplaceAllString(s, repl)
		}
		s := strBytes(a[1])
		var out []value
		last := 0
		all(fr.i, rx, s, -1, func(m []int) {
			out = append(out, s[last:m[0]]...)
			out = append(out, expandRepl(rx, repl, s, m)...)
			last = m[1]
		})
		out = append(out, s[last:]...)
		return mkStr(out)
	})
	ext("(*regexp.Regexp).ReplaceAllLiteralString", func(fr *frame, a []value) value {
		rx := rxOf(a[0])
		s := strBytes(a[1])
		repl := strBytes(a[2])
		var out []value
		last := 0
		all(fr.i, rx, s, -1, func(m []int) {
			out = append(out, s[last:m[0]]...)
			out = append(out, repl...)
			last = m[1]
		})
		out = append(out, s[last:]...)
		return mkStr(out)
	})
	ext("(*regexp.Regexp).Split", func(fr *frame, a []value) value {
		rx := rxOf(a[0])
		n := int(fr.i.concIntVal(a[2]))
		return valStrs(rx.re.Split(fr.i.concStr(a[1]), n))
	})
}

// expandRepl expands $1 / ${name} templates of ReplaceAllString.
func expandRepl(rx *rxObj, repl string, s []value, m []int) []value {
	var out []value
	for k := 0; k < len(repl); k++ {
		c := repl[k]
		if c != '$' || k+1 >= len(repl) {
			out = append(out, c)
			continue
		}
		if repl[k+1] == '$' {
			out = append(out, byte('$'))
			k++
			continue
		}
		name := ""
		end := k + 1
		if repl[end] == '{' {
			j := end + 1
			for j < len(repl) && repl[j] != '}' {
				j++
			}
			if j >= len(repl) {
				out = append(out, c)
				continue
			}
			name = repl[end+1 : j]
			end = j + 1
		} else {
			j := end
			for j < len(repl) && (repl[j] == '_' || unicode.IsLetter(rune(repl[j])) || unicode.IsDigit(rune(repl[j]))) {
				j++
			}
			name = repl[end:j]
			end = j
		}
		if name == "" {
			out = append(out, c)
			continue
		}
		idx := -1
		if n, err := fmt.Sscanf(name, "%d", &idx); n != 1 || err != nil || fmt.Sprint(idx) != name {
			idx = -1
			for gi, gn := range rx.names {
				if gn == name {
					idx = gi
				}
			}
		}
		if idx >= 0 && 2*idx+1 < len(m) && m[2*idx] >= 0 {
			out = append(out, s[m[2*idx]:m[2*idx+1]]...)
		}
		k = end - 1
	}
	return out
}
