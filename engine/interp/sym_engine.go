package interp

// Exploration driver: runs a harness function over all decision prefixes, with
// a pool of workers sharing the read-only SSA program.

import (
	"fmt"
	"go/token"
	"go/types"
	"os"
	"runtime"
	"runtime/debug"
	"sort"
	"strings"
	"sync"
	"time"

	"golang.org/x/tools/go/ssa"
)

// Shared holds per-program state built once.
type Shared struct {
	prog               *ssa.Program
	reflectPackage     *ssa.Package
	errorMethods       methodSet
	rtypeMethods       methodSet
	runtimeErrorString types.Type
	sizes              types.Sizes
}

var sharedOnce sync.Once
var sharedState *Shared

// Prepare must be called once per program before Explore.
func Prepare(prog *ssa.Program) *Shared {
	sharedOnce.Do(func() {
		i := &interpreter{prog: prog}
		runtimePkg := prog.ImportedPackage("runtime")
		i.runtimeErrorString = runtimePkg.Type("errorString").Object().Type()
		initReflect(i)
		sharedState = &Shared{prog: prog, reflectPackage: i.reflectPackage, errorMethods: i.errorMethods,
			rtypeMethods: i.rtypeMethods, runtimeErrorString: i.runtimeErrorString,
			sizes: &types.StdSizes{WordSize: 8, MaxAlign: 8}}
	})
	return sharedState
}

type Config struct {
	Workers   int
	MaxPaths  int
	Deadline  time.Time
	MaxSteps  int64
	MaxDepth  int
	Samples   int // how many completed paths to keep for native validation
	Seed      int64
	Trace     bool
	SolverLog string
}

type SamplePath struct {
	Decs   string     `json:"decisions"`
	Inputs []InputRec `json:"inputs"`
	Obs    []string   `json:"observed"`
	Status string     `json:"status"`
}

type Report struct {
	Harness     string
	Paths       int            // completed paths (status ok)
	Pruned      int            // paths ended by an infeasible assume
	Undecided   int            // paths ended by budget / unsupported / weak
	Unexplored  int            // work items left when the budget ran out
	Decisions   int64
	Steps       int64
	Violations  []Violation
	Samples     []SamplePath
	Funcs       map[string]bool
	Intrinsics  map[string]int
	Covers      map[string]int
	Undec       map[string]int // reasons
	Solver      SolverStats
	Wall        time.Duration
	MaxDecs     int
}

type pathResult struct {
	status string // ok, pruned, undecided
	why    string
	ps     *pathState
	sample *SamplePath
}

// Explore runs harness fnName of pkg over all paths within the configured budget.
func Explore(sh *Shared, pkg *ssa.Package, fnName string, cfg Config) *Report {
	t0 := time.Now()
	rep := &Report{Harness: pkg.Pkg.Name() + "." + fnName, Funcs: map[string]bool{}, Intrinsics: map[string]int{},
		Covers: map[string]int{}, Undec: map[string]int{}}
	fn := pkg.Func(fnName)
	if fn == nil {
		rep.Undecided = 1
		rep.Undec["harness function not found: "+fnName] = 1
		return rep
	}
	if cfg.Workers <= 0 {
		cfg.Workers = runtime.NumCPU()
	}
	if cfg.MaxSteps == 0 {
		cfg.MaxSteps = 20_000_000
	}
	if cfg.MaxDepth == 0 {
		cfg.MaxDepth = 600
	}
	// interpret the package initialisers once; every path starts from a deep copy of that state
	var initGlobals map[*ssa.Global]*value
	func() {
		defer func() {
			if r := recover(); r != nil {
				initGlobals = nil
				rep.Undec["package initialisation failed: "+firstLine(panicString(r))]++
			}
		}()
		ti := newInterp(sh)
		ti.ps = &pathState{ts: newTermStore(), model: map[int]uint64{}, modelOK: true, defined: map[int]bool{}, covers: map[string]bool{},
			maxSteps: 1 << 40, maxDepth: cfg.MaxDepth, funcs: map[string]bool{}, intr: map[string]int{}}
		if initFn := pkg.Func("init"); initFn != nil {
			ti.inInit = true
			call(ti, nil, token.NoPos, initFn, nil)
		}
		initGlobals = ti.globals
	}()
	var mu sync.Mutex
	cond := sync.NewCond(&mu)
	stack := []workItem{{}}
	active := 0
	started := 0
	stop := false
	seenViolN := map[string]int{}
	seenViolSig := map[string]bool{}

	worker := func(wid int) {
		sv := newSolver()
		defer sv.close()
		if cfg.SolverLog != "" && wid == 0 {
			f, _ := os.Create(cfg.SolverLog)
			sv.log = f
			defer f.Close()
		}
		for {
			mu.Lock()
			for len(stack) == 0 && active > 0 && !stop {
				cond.Wait()
			}
			if stop || (len(stack) == 0 && active == 0) {
				mu.Unlock()
				cond.Broadcast()
				return
			}
			if (cfg.MaxPaths > 0 && started >= cfg.MaxPaths) || (!cfg.Deadline.IsZero() && time.Now().After(cfg.Deadline)) {
				stop = true
				mu.Unlock()
				cond.Broadcast()
				return
			}
			it := stack[len(stack)-1]
			stack = stack[:len(stack)-1]
			active++
			started++
			mu.Unlock()

			res := runPath(sh, pkg, fn, it, sv, cfg, initGlobals)

			mu.Lock()
			active--
			ps := res.ps
			switch res.status {
			case "ok":
				rep.Paths++
			case "pruned":
				rep.Pruned++
			default:
				rep.Undecided++
				rep.Undec[res.why]++
			}
			rep.Decisions += int64(len(ps.decs))
			if len(ps.decs) > rep.MaxDecs {
				rep.MaxDecs = len(ps.decs)
			}
			rep.Steps += ps.steps
			for f := range ps.funcs {
				rep.Funcs[f] = true
			}
			for k, n := range ps.intr {
				rep.Intrinsics[k] += n
			}
			for c := range ps.covers {
				rep.Covers[c]++
			}
			for _, v := range ps.viols {
				// keep a few distinct candidates per label: a schedule- or order-dependent candidate may not
				// reproduce natively while another input class with the same label does
				sig := v.Label + "|" + fmt.Sprint(v.Inputs)
				if seenViolN[v.Label] < 40 && !seenViolSig[sig] {
					seenViolSig[sig] = true
					seenViolN[v.Label]++
					rep.Violations = append(rep.Violations, v)
				}
			}
			if res.sample != nil {
				if len(rep.Samples) < cfg.Samples {
					rep.Samples = append(rep.Samples, *res.sample)
				} else if cfg.Samples > 0 {
					// reservoir-style deterministic replacement keyed by path count
					k := (rep.Paths*2654435761 + int(cfg.Seed)) % (rep.Paths + 1)
					if k < cfg.Samples {
						rep.Samples[k] = *res.sample
					}
				}
			}
			stack = append(stack, ps.newItems...)
			mu.Unlock()
			cond.Broadcast()
		}
	}
	var wg sync.WaitGroup
	stats := make([]*solver, 0)
	_ = stats
	var smu sync.Mutex
	for w := 0; w < cfg.Workers; w++ {
		wg.Add(1)
		go func(w int) {
			defer wg.Done()
			worker(w)
		}(w)
	}
	wg.Wait()
	smu.Lock()
	smu.Unlock()
	rep.Unexplored = len(stack)
	rep.Solver = aggStats
	aggStats = SolverStats{}
	rep.Wall = time.Since(t0)
	return rep
}

var aggMu sync.Mutex
var aggStats SolverStats

func addStats(s SolverStats) {
	aggMu.Lock()
	aggStats.Sat += s.Sat
	aggStats.Unsat += s.Unsat
	aggStats.Unknown += s.Unknown
	aggStats.Errors += s.Errors
	aggStats.Queries += s.Queries
	aggStats.Time += s.Time
	aggMu.Unlock()
}

func newInterp(sh *Shared) *interpreter {
	return &interpreter{
		prog:               sh.prog,
		globals:            make(map[*ssa.Global]*value),
		sizes:              sh.sizes,
		goroutines:         1,
		reflectPackage:     sh.reflectPackage,
		errorMethods:       sh.errorMethods,
		rtypeMethods:       sh.rtypeMethods,
		runtimeErrorString: sh.runtimeErrorString,
	}
}

func runPath(sh *Shared, pkg *ssa.Package, fn *ssa.Function, it workItem, sv *solver, cfg Config, initGlobals map[*ssa.Global]*value) (res pathResult) {
	i := newInterp(sh)
	ps := &pathState{ts: newTermStore(), sv: sv, forced: it.prefix, model: map[int]uint64{}, modelOK: true,
		defined: map[int]bool{}, covers: map[string]bool{}, maxSteps: cfg.MaxSteps, maxDepth: cfg.MaxDepth,
		funcs: map[string]bool{}, intr: map[string]int{}, weak: it.weak}
	if it.model != nil {
		for k, v := range it.model {
			ps.model[k] = v
		}
	} else if len(it.prefix) > 0 {
		ps.modelOK = false
	}
	i.ps = ps
	before := sv.stats
	sv.freshScope()
	res.ps = ps
	defer func() {
		d := sv.stats
		addStats(SolverStats{Sat: d.Sat - before.Sat, Unsat: d.Unsat - before.Unsat, Unknown: d.Unknown - before.Unknown,
			Errors: d.Errors - before.Errors, Queries: d.Queries - before.Queries, Time: d.Time - before.Time})
	}()
	finish := func() {
		if ps.sched != nil {
			ps.sched.shutdown()
		}
	}
	defer func() {
		r := recover()
		finish()
		if r == nil {
			return
		}
		switch p := r.(type) {
		case pathAbort:
			switch {
			case p.why == "assert-false" || p.why == "deadlock":
				// a complete path that ended in a (candidate) violation: explored, not pruned
				res.status = "ok"
			case p.why == "assume" || p.why == "infeasible":
				res.status = "pruned"
			case p.why == "step budget exceeded":
				// hang candidate: confirmed (or not) by a native run under a timeout
				var m map[int]uint64
				if ps.ensureModel() {
					m = ps.model
				}
				ps.violate("hang@"+i.hangSite, i.hangSite, "instruction budget exhausted (possible non-termination)", m)
				// the path was not followed to its end: undecided unless the candidate is confirmed
				res.status, res.why = "undecided", p.why
			default:
				res.status, res.why = "undecided", p.why
			}
		case stackExhaustion:
			var m map[int]uint64
			if ps.ensureModel() {
				m = ps.model
			}
			ps.violate("stack@"+p.fn, p.fn, "call depth budget exhausted (possible unbounded recursion)", m)
			res.status = "ok"
		default:
			// a panic escaping the harness: violation candidate
			msg := panicString(r)
			if strings.HasPrefix(msg, "ENGINE:") || strings.HasPrefix(msg, "no code for function") || isEngineBug(r) {
				res.status, res.why = "undecided", "engine: "+firstLine(msg)+" @ "+i.panicSite
				if cfg.Trace {
					fmt.Fprintf(os.Stderr, "ENGINE PANIC %s\n%s\n%s\n", msg, i.panicTrace, debug.Stack())
				}
				return
			}
			site := i.panicSite
			var m map[int]uint64
			if ps.ensureModel() {
				m = ps.model
			}
			ps.violate("panic@"+site, site, firstLine(msg), m)
			res.status = "ok"
			res.sample = mkSample(ps, "panic")
		}
	}()
	if len(it.prefix) > 0 && it.model == nil {
		// no model known for this prefix: path condition is rebuilt during replay
	}
	if initGlobals != nil {
		i.globals = cloneGlobals(initGlobals)
	} else if initFn := pkg.Func("init"); initFn != nil {
		i.inInit = true
		call(i, nil, token.NoPos, initFn, nil)
		i.inInit = false
	}
	call(i, nil, token.NoPos, fn, nil)
	if len(ps.decs) < len(ps.forced) {
		res.status, res.why = "undecided", "replay divergence: prefix not consumed"
		return
	}
	if ps.weak {
		res.status, res.why = "undecided", "solver unknown on path"
		return
	}
	res.status = "ok"
	res.sample = mkSample(ps, "ok")
	return
}

func mkSample(ps *pathState, status string) *SamplePath {
	if !ps.ensureModel() {
		return nil
	}
	s := &SamplePath{Decs: decString(ps.decs), Inputs: ps.concreteInputs(ps.model), Status: status}
	memo := map[int]uint64{}
	for _, o := range ps.obs {
		s.Obs = append(s.Obs, o.label+"="+dumpValue(o.v, o.t, ps.model, memo, 0))
	}
	return s
}

func firstLine(s string) string {
	if k := strings.IndexByte(s, '\n'); k >= 0 {
		return s[:k]
	}
	return s
}

func panicString(r interface{}) string {
	switch p := r.(type) {
	case targetPanic:
		return "panic: " + panicValueString(p.v)
	case runtime.Error:
		return "runtime error: " + strings.TrimPrefix(p.Error(), "runtime error: ")
	case string:
		return p
	case error:
		return p.Error()
	}
	return fmt.Sprintf("%T: %v", r, r)
}

func panicValueString(v value) string {
	if x, ok := v.(iface); ok {
		if s, ok := x.v.(string); ok {
			return s
		}
		return fmt.Sprintf("(%v) %s", x.t, toString(x.v))
	}
	return toString(v)
}

// isEngineBug distinguishes Go runtime errors that come from the interpreter's own
// code (type assertion on engine values etc.) from those that model a target fault.
func isEngineBug(r interface{}) bool {
	if re, ok := r.(runtime.Error); ok {
		msg := re.Error()
		if strings.Contains(msg, "interface conversion: interp.value") || strings.Contains(msg, "interface conversion: interface {} is") {
			return true
		}
	}
	if s, ok := r.(string); ok {
		for _, p := range []string{"unexpected", "symBinop", "symConv", "symUnop", "termOf", "strBytes", "kindWidth", "unsupported", "get: no value", "cannot", "invalid binary op", "invalid unary op", "illegal", "zero", "fromConst", "bin ", "cmp ", "eq:"} {
			if strings.HasPrefix(s, p) {
				return true
			}
		}
	}
	return false
}

func (i *interpreter) siteString() string {
	if i.curFrame != nil {
		return i.curFrame.fn.String()
	}
	return ""
}

func (i *interpreter) concIntIfSym(v value) value {
	if s, ok := v.(sym); ok {
		u := i.ps.concInt(s.t)
		return fromConst(u, s.k)
	}
	return v
}

func symMinMax(i *interpreter, a, b value, isMin bool) value {
	if isSymbolic(a) || isSymbolic(b) {
		op := token.LSS
		if !isMin {
			op = token.GTR
		}
		c := i.symBinop(op, a, b)
		if isStr(a) {
			if i.concBool(c) {
				return a
			}
			return b
		}
		k := kindOfValue(a)
		return mkScalar(i.ps.ts.ite(i.termOf(c), i.termOf(a), i.termOf(b)), k)
	}
	if isMin {
		return min(a, b)
	}
	return max(a, b)
}

// dumpValue renders a value canonically (same format as the native vrt runtime).
func dumpValue(v value, t interface{}, m map[int]uint64, memo map[int]uint64, depth int) string {
	if depth > 40 {
		return "..."
	}
	switch x := v.(type) {
	case nil:
		return "nil"
	case string:
		return fmt.Sprintf("%q", x)
	case sstr:
		b := make([]byte, len(x.b))
		for k, e := range x.b {
			switch e := e.(type) {
			case uint8:
				b[k] = e
			case sym:
				b[k] = byte(e.t.eval(m, memo))
			}
		}
		return fmt.Sprintf("%q", string(b))
	case sym:
		u := x.t.eval(m, memo)
		if x.k == types.Bool {
			return fmt.Sprint(u == 1)
		}
		w, signed := kindWidth(x.k)
		if signed {
			return fmt.Sprint(signExt(u, w))
		}
		return fmt.Sprint(u)
	case bool, int, int8, int16, int32, int64, uint, uint8, uint16, uint32, uint64, uintptr, float32, float64:
		return fmt.Sprint(x)
	case iface:
		if x.t == nil {
			return "nil"
		}
		if isErrorType(x.t) {
			return "error"
		}
		return dumpValue(x.v, x.t, m, memo, depth+1)
	case *value:
		if x == nil {
			return "nil"
		}
		return "&" + dumpValue(*x, nil, m, memo, depth+1)
	case []value:
		if x == nil {
			return "[]"
		}
		parts := make([]string, len(x))
		for k, e := range x {
			parts[k] = dumpValue(e, nil, m, memo, depth+1)
		}
		return "[" + strings.Join(parts, ",") + "]"
	case array:
		parts := make([]string, len(x))
		for k, e := range x {
			parts[k] = dumpValue(e, nil, m, memo, depth+1)
		}
		return "[" + strings.Join(parts, ",") + "]"
	case structure:
		parts := make([]string, len(x))
		for k, e := range x {
			parts[k] = dumpValue(e, nil, m, memo, depth+1)
		}
		return "{" + strings.Join(parts, ",") + "}"
	case *omap:
		if x == nil {
			return "{}"
		}
		var parts []string
		for _, e := range x.live() {
			parts = append(parts, dumpValue(e.key, nil, m, memo, depth+1)+":"+dumpValue(e.val, nil, m, memo, depth+1))
		}
		sort.Strings(parts)
		return "{" + strings.Join(parts, ",") + "}"
	case *ssa.Function, *closure, *ssa.Builtin:
		return "func"
	}
	return fmt.Sprintf("<%T>", v)
}

func isErrorType(t types.Type) bool {
	if t == nil {
		return false
	}
	errT := types.Universe.Lookup("error").Type().Underlying().(*types.Interface)
	return types.Implements(t, errT) || types.Implements(types.NewPointer(t), errT)
}

type stackExhaustion struct{ fn string }

func instrDesc(in ssa.Instruction) string {
	switch x := in.(type) {
	case *ssa.TypeAssert:
		return "typeassert(" + x.AssertedType.String() + ")"
	case *ssa.IndexAddr, *ssa.Index:
		return "index"
	case *ssa.Slice:
		return "slice"
	case *ssa.MapUpdate:
		return "mapupdate"
	case *ssa.UnOp:
		return "unop" + x.Op.String()
	case *ssa.BinOp:
		return "binop" + x.Op.String()
	case *ssa.Call:
		return "call"
	case *ssa.Panic:
		return "panic"
	case *ssa.FieldAddr, *ssa.Field:
		return "field"
	}
	return fmt.Sprintf("%T", in)
}
