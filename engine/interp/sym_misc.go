package interp

// Intrinsics: fmt, errors, sort, logrus, context.WithValue, strconv helpers.

import (
	"fmt"
	"go/token"
	"go/types"
	"strconv"
	"strings"
	"time"

	"golang.org/x/tools/go/ssa"
)

// InitPolicy decides whether a package initializer is interpreted.
var InitPolicy = func(pkgPath string) bool { return true }

// ---- fmt

// fmtArg renders one operand for %v / %s.
func (i *interpreter) fmtArg(fr *frame, v value, verb byte) []value {
	switch x := v.(type) {
	case iface:
		if x.t == nil {
			if verb == 's' {
				return strBytes("%!s(<nil>)")
			}
			return strBytes("<nil>")
		}
		// error / Stringer
		if verb != 'd' && verb != 'T' {
			if m := i.methodByName(x.t, "Error"); m != nil && isErrorType(x.t) {
				return strBytes(call(i, fr, token.NoPos, m, []value{x.v}))
			}
			if m := i.methodByName(x.t, "String"); m != nil && m.Signature.Params().Len() == 0 && m.Signature.Results().Len() == 1 {
				if b, ok := m.Signature.Results().At(0).Type().Underlying().(*types.Basic); ok && b.Kind() == types.String {
					return strBytes(call(i, fr, token.NoPos, m, []value{x.v}))
				}
			}
		}
		return i.fmtTyped(fr, x.t, x.v, verb)
	}
	return i.fmtTyped(fr, nil, v, verb)
}

func (i *interpreter) methodByName(t types.Type, name string) *ssa.Function {
	ms := i.prog.MethodSets.MethodSet(t)
	for k := 0; k < ms.Len(); k++ {
		if ms.At(k).Obj().Name() == name {
			return i.prog.MethodValue(ms.At(k))
		}
	}
	return nil
}

func (i *interpreter) fmtTyped(fr *frame, t types.Type, v value, verb byte) []value {
	switch x := v.(type) {
	case string:
		return strBytes(x)
	case sstr:
		return x.b
	case sym:
		if x.k == types.Bool {
			if i.ps.branch(x.t) {
				return strBytes("true")
			}
			return strBytes("false")
		}
		if verb == 'c' {
			return i.runeToBytes(x)
		}
		n := i.concIntVal(x)
		return strBytes(strconv.FormatInt(n, 10))
	case bool, int, int8, int16, int64, uint, uint8, uint16, uint32, uint64, uintptr, float32, float64:
		return strBytes(fmt.Sprintf("%"+string(verb), x))
	case int32:
		return strBytes(fmt.Sprintf("%"+string(verb), x))
	case []value:
		var out []value
		out = append(out, byte('['))
		var et types.Type
		if t != nil {
			if s, ok := t.Underlying().(*types.Slice); ok {
				et = s.Elem()
				if b, ok := et.Underlying().(*types.Basic); ok && b.Kind() == types.Uint8 && verb == 's' {
					return x
				}
			}
		}
		for k, e := range x {
			if k > 0 {
				out = append(out, byte(' '))
			}
			out = append(out, i.fmtElem(fr, et, e, verb)...)
		}
		return append(out, byte(']'))
	case *omap:
		var parts []string
		var et types.Type
		if t != nil {
			if m, ok := t.Underlying().(*types.Map); ok {
				et = m.Elem()
			}
		}
		out := []value{byte('m'), byte('a'), byte('p'), byte('[')}
		es := x.live()
		_ = parts
		for k, e := range es {
			if k > 0 {
				out = append(out, byte(' '))
			}
			out = append(out, i.fmtElem(fr, nil, e.key, verb)...)
			out = append(out, byte(':'))
			out = append(out, i.fmtElem(fr, et, e.val, verb)...)
		}
		return append(out, byte(']'))
	case *value:
		if x == nil {
			return strBytes("<nil>")
		}
		return strBytes("0xc000000000")
	case structure:
		out := []value{byte('{')}
		var st *types.Struct
		if t != nil {
			st, _ = t.Underlying().(*types.Struct)
		}
		for k, e := range x {
			if k > 0 {
				out = append(out, byte(' '))
			}
			var ft types.Type
			if st != nil {
				ft = st.Field(k).Type()
			}
			out = append(out, i.fmtElem(fr, ft, e, verb)...)
		}
		return append(out, byte('}'))
	case nil:
		return strBytes("<nil>")
	}
	return strBytes(fmt.Sprintf("<%T>", v))
}

func (i *interpreter) fmtElem(fr *frame, t types.Type, v value, verb byte) []value {
	if _, ok := v.(iface); ok {
		return i.fmtArg(fr, v, verb)
	}
	if t != nil {
		if _, isIface := t.Underlying().(*types.Interface); !isIface {
			return i.fmtArg(fr, iface{t: t, v: v}, verb)
		}
	}
	return i.fmtTyped(fr, t, v, verb)
}

// sprintf is a small fmt.Sprintf over engine values. Supported verbs: s v d q c T w x t.
func (i *interpreter) sprintf(fr *frame, format string, args []value) value {
	var out []value
	argi := 0
	for k := 0; k < len(format); k++ {
		c := format[k]
		if c != '%' {
			out = append(out, c)
			continue
		}
		k++
		if k >= len(format) {
			out = append(out, strBytes("%!(NOVERB)")...)
			break
		}
		// flags / width (passed through for native numeric formatting)
		st := k
		for k < len(format) && strings.IndexByte("+-# 0123456789.", format[k]) >= 0 {
			k++
		}
		if k >= len(format) {
			break
		}
		flags := format[st:k]
		verb := format[k]
		if verb == '%' {
			out = append(out, byte('%'))
			continue
		}
		if argi >= len(args) {
			out = append(out, strBytes("%!"+string(verb)+"(MISSING)")...)
			continue
		}
		arg := args[argi]
		argi++
		switch verb {
		case 'T':
			if x, ok := arg.(iface); ok && x.t != nil {
				out = append(out, strBytes(x.t.String())...)
			} else {
				out = append(out, strBytes("<nil>")...)
			}
		case 'q':
			b := i.fmtArg(fr, arg, 's')
			s := mkStr(b)
			if cs, ok := s.(string); ok {
				out = append(out, strBytes(strconv.Quote(cs))...)
			} else {
				// approximation for symbolic content (only used in messages): no escaping
				out = append(out, byte('"'))
				out = append(out, b...)
				out = append(out, byte('"'))
			}
		case 'd', 'x', 'X', 'o', 'b', 'f', 'g', 'e', 't', 'c', 'U', 'p':
			x := arg
			if xi, ok := x.(iface); ok {
				x = xi.v
			}
			if sx, ok := x.(sym); ok {
				out = append(out, i.fmtTyped(fr, nil, sx, verb)...)
				break
			}
			switch x.(type) {
			case bool, int, int8, int16, int32, int64, uint, uint8, uint16, uint32, uint64, uintptr, float32, float64, string:
				out = append(out, strBytes(fmt.Sprintf("%"+flags+string(verb), x))...)
			default:
				out = append(out, i.fmtArg(fr, arg, 'v')...)
			}
		default: // s v w
			if verb == 's' {
				// a number or boolean under %s is a bad verb: the real fmt prints %!s(int=8080)
				x := arg
				if xi, ok := x.(iface); ok {
					x = xi.v
				}
				switch n := x.(type) {
				case bool, int, int8, int16, int32, int64, uint, uint8, uint16, uint32, uint64, uintptr, float32, float64:
					out = append(out, strBytes(fmt.Sprintf("%"+flags+"s", n))...)
					continue
				case sym:
					if n.t.srt != 0 {
						out = append(out, strBytes(fmt.Sprintf("%"+flags+"s", int(i.concIntVal(n))))...)
						continue
					}
				}
			}
			b := i.fmtArg(fr, arg, 'v')
			if flags != "" && allConcrete(b) {
				if cs, ok := mkStr(b).(string); ok {
					b = strBytes(fmt.Sprintf("%"+flags+"s", cs))
				}
			}
			out = append(out, b...)
		}
	}
	if argi < len(args) {
		out = append(out, strBytes("%!(EXTRA)")...)
	}
	return mkStr(out)
}

func (i *interpreter) sprint(fr *frame, args []value, ln bool) value {
	var out []value
	prevStr := false
	for k, a := range args {
		isS := false
		if x, ok := a.(iface); ok {
			isS = x.t != nil && isStr(x.v)
		}
		if k > 0 && (ln || (!isS && !prevStr)) {
			out = append(out, byte(' '))
		}
		out = append(out, i.fmtArg(fr, a, 'v')...)
		prevStr = isS
	}
	if ln {
		out = append(out, byte('\n'))
	}
	return mkStr(out)
}

// mkError builds an *errors.errorString-like error value with the given message.
func (i *interpreter) mkError(fr *frame, msg value) value {
	errorsNew := i.prog.ImportedPackage("errors").Func("New")
	return call(i, fr, token.NoPos, errorsNew, []value{msg})
}

// wrapErrorType is the dynamic type used for fmt.Errorf results that wrap (%w).
func (i *interpreter) fmtWrapError(fr *frame, msg value, wrapped []value) value {
	fmtPkg := i.prog.ImportedPackage("fmt")
	if len(wrapped) == 1 {
		t := fmtPkg.Type("wrapError").Type()
		var s value = structure{msg, wrapped[0]}
		return iface{t: types.NewPointer(t), v: &s}
	}
	t := fmtPkg.Type("wrapErrors").Type()
	var s value = structure{msg, append([]value{}, wrapped...)}
	return iface{t: types.NewPointer(t), v: &s}
}

func init() {
	ext := func(name string, f externalFn) { externals[name] = f }
	ext("fmt.Sprintf", func(fr *frame, a []value) value {
		return fr.i.sprintf(fr, fr.i.concStr(a[0]), a[1].([]value))
	})
	ext("fmt.Sprint", func(fr *frame, a []value) value { return fr.i.sprint(fr, a[0].([]value), false) })
	ext("fmt.Sprintln", func(fr *frame, a []value) value { return fr.i.sprint(fr, a[0].([]value), true) })
	ext("fmt.Errorf", func(fr *frame, a []value) value {
		format := fr.i.concStr(a[0])
		args := a[1].([]value)
		msg := fr.i.sprintf(fr, format, args)
		// collect %w operands
		var wrapped []value
		argi := 0
		for k := 0; k < len(format); k++ {
			if format[k] != '%' {
				continue
			}
			k++
			for k < len(format) && strings.IndexByte("+-# 0123456789.", format[k]) >= 0 {
				k++
			}
			if k >= len(format) {
				break
			}
			if format[k] == '%' {
				continue
			}
			if format[k] == 'w' && argi < len(args) {
				if x, ok := args[argi].(iface); ok && x.t != nil && isErrorType(x.t) {
					wrapped = append(wrapped, x)
				}
			}
			argi++
		}
		if len(wrapped) == 0 {
			return fr.i.mkError(fr, msg)
		}
		return fr.i.fmtWrapError(fr, msg, wrapped)
	})
	for _, n := range []string{"fmt.Println", "fmt.Printf", "fmt.Print"} {
		ext(n, func(fr *frame, a []value) value { return tuple{0, iface{}} })
	}
	ext("fmt.Fprintf", func(fr *frame, a []value) value { return tuple{0, iface{}} })
	ext("fmt.Fprintln", func(fr *frame, a []value) value { return tuple{0, iface{}} })
	ext("fmt.Fprint", func(fr *frame, a []value) value { return tuple{0, iface{}} })

	// logrus: no effect
	for _, n := range []string{"Warnf", "Warn", "Warning", "Warningf", "Debugf", "Debug", "Infof", "Info", "Errorf", "Error", "Tracef"} {
		ext("github.com/sirupsen/logrus."+n, func(fr *frame, a []value) value { return nil })
	}

	// errors
	unwrapOne := func(fr *frame, e iface) []iface {
		i := fr.i
		if m := i.methodByName(e.t, "Unwrap"); m != nil && m.Signature.Params().Len() == 0 && m.Signature.Results().Len() == 1 {
			r := call(i, fr, token.NoPos, m, []value{e.v})
			switch x := r.(type) {
			case iface:
				if x.t != nil {
					return []iface{x}
				}
			case []value:
				var out []iface
				for _, y := range x {
					if yi, ok := y.(iface); ok && yi.t != nil {
						out = append(out, yi)
					}
				}
				return out
			}
		}
		return nil
	}
	comparable := func(t types.Type) bool { return types.Comparable(t) }
	var is func(fr *frame, err, target iface) bool
	is = func(fr *frame, err, target iface) bool {
		i := fr.i
		if err.t == nil {
			return target.t == nil
		}
		if target.t != nil && comparable(target.t) && sameType(err.t, target.t) && equals(i, err.t, err.v, target.v) {
			return true
		}
		if m := i.methodByName(err.t, "Is"); m != nil && m.Signature.Params().Len() == 1 {
			if i.concBool(call(i, fr, token.NoPos, m, []value{err.v, target})) {
				return true
			}
		}
		for _, u := range unwrapOne(fr, err) {
			if is(fr, u, target) {
				return true
			}
		}
		return false
	}
	ext("errors.Is", func(fr *frame, a []value) value { return is(fr, a[0].(iface), a[1].(iface)) })
	var as func(fr *frame, err iface, tp *value, tt types.Type) bool
	as = func(fr *frame, err iface, tp *value, tt types.Type) bool {
		i := fr.i
		if err.t == nil {
			return false
		}
		if it, ok := tt.Underlying().(*types.Interface); ok {
			if types.Implements(err.t, it) {
				*tp = err
				return true
			}
		} else if types.Identical(err.t, tt) {
			*tp = err.v
			return true
		}
		if m := i.methodByName(err.t, "As"); m != nil && m.Signature.Params().Len() == 1 {
			if i.concBool(call(i, fr, token.NoPos, m, []value{err.v, iface{t: types.NewPointer(tt), v: tp}})) {
				return true
			}
		}
		for _, u := range unwrapOne(fr, err) {
			if as(fr, u, tp, tt) {
				return true
			}
		}
		return false
	}
	ext("errors.As", func(fr *frame, a []value) value {
		target := a[1].(iface)
		if target.t == nil {
			panic("errors: target cannot be nil")
		}
		pt, ok := target.t.Underlying().(*types.Pointer)
		if !ok {
			panic("errors: target must be a non-nil pointer")
		}
		return as(fr, a[0].(iface), target.v.(*value), pt.Elem())
	})
	ext("errors.Unwrap", func(fr *frame, a []value) value {
		e := a[0].(iface)
		if e.t == nil {
			return iface{}
		}
		if m := fr.i.methodByName(e.t, "Unwrap"); m != nil && m.Signature.Results().Len() == 1 {
			if r, ok := call(fr.i, fr, token.NoPos, m, []value{e.v}).(iface); ok {
				return r
			}
		}
		return iface{}
	})

	// sort
	insertion := func(n int, less func(a, b int) bool, swap func(a, b int)) {
		for x := 1; x < n; x++ {
			for y := x; y > 0 && less(y, y-1); y-- {
				swap(y, y-1)
			}
		}
	}
	sortSlice := func(fr *frame, a []value) value {
		x := a[0].(iface).v.([]value)
		insertion(len(x), func(p, q int) bool {
			return fr.i.concBool(call(fr.i, fr, token.NoPos, a[1], []value{p, q}))
		}, func(p, q int) { fr.i.noteWrite(&x[p]); fr.i.noteWrite(&x[q]); x[p], x[q] = x[q], x[p] })
		return nil
	}
	ext("sort.Slice", sortSlice)
	ext("sort.SliceStable", sortSlice)
	ext("sort.Strings", func(fr *frame, a []value) value {
		x := a[0].([]value)
		insertion(len(x), func(p, q int) bool {
			return fr.i.concBool(fr.i.symStrBinopOrNative(token.LSS, x[p], x[q]))
		}, func(p, q int) { fr.i.noteWrite(&x[p]); fr.i.noteWrite(&x[q]); x[p], x[q] = x[q], x[p] })
		return nil
	})
	ext("sort.Ints", func(fr *frame, a []value) value {
		x := a[0].([]value)
		insertion(len(x), func(p, q int) bool {
			return fr.i.concBool(binop(fr.i, token.LSS, nil, x[p], x[q]))
		}, func(p, q int) { fr.i.noteWrite(&x[p]); fr.i.noteWrite(&x[q]); x[p], x[q] = x[q], x[p] })
		return nil
	})

	// strconv on symbolic operands: concretise
	ext("strconv.Itoa", func(fr *frame, a []value) value { return strconv.Itoa(int(fr.i.concIntVal(a[0]))) })
	ext("strconv.FormatInt", func(fr *frame, a []value) value {
		return strconv.FormatInt(fr.i.concIntVal(a[0]), int(fr.i.concIntVal(a[1])))
	})
	ext("strconv.FormatUint", func(fr *frame, a []value) value {
		return strconv.FormatUint(uint64(fr.i.concIntVal(a[0])), int(fr.i.concIntVal(a[1])))
	})
	ext("strconv.Quote", func(fr *frame, a []value) value { return strconv.Quote(fr.i.concStr(a[0])) })
	ext("strconv.ParseFloat", func(fr *frame, a []value) value {
		f, err := strconv.ParseFloat(fr.i.concStr(a[0]), int(fr.i.concIntVal(a[1])))
		if err != nil {
			return tuple{f, fr.i.mkError(fr, err.Error())}
		}
		return tuple{f, iface{}}
	})
	ext("strconv.FormatFloat", func(fr *frame, a []value) value {
		return strconv.FormatFloat(a[0].(float64), a[1].(byte), int(asInt64(a[2])), int(asInt64(a[3])))
	})

	// context.WithValue: build the valueCtx directly (the real one consults reflectlite)
	ext("context.WithValue", func(fr *frame, a []value) value {
		ctxPkg := fr.i.prog.ImportedPackage("context")
		vt := ctxPkg.Type("valueCtx").Type()
		var s value = structure{a[0], a[1], a[2]}
		return iface{t: types.NewPointer(vt), v: &s}
	})
	ext("internal/reflectlite.TypeOf", func(fr *frame, a []value) value { return iface{} })
}

func (i *interpreter) symStrBinopOrNative(op token.Token, x, y value) value {
	if isSymbolic(x) || isSymbolic(y) {
		return i.symStrBinop(op, x, y)
	}
	switch op {
	case token.LSS:
		return x.(string) < y.(string)
	}
	panic("symStrBinopOrNative")
}

// Backtrace renders the interpreted call stack.
func Backtrace(fr *frame) string {
	s := ""
	for n := 0; fr != nil && n < 30; fr, n = fr.caller, n+1 {
		s += "    at " + fr.fn.String() + "\n"
	}
	return s
}

func mustDeref(t types.Type) types.Type {
	if p, ok := t.Underlying().(*types.Pointer); ok {
		return p.Elem()
	}
	panic("mustDeref: not a pointer: " + t.String())
}

func callerName(fr *frame) string {
	s := ""
	for n := 0; fr != nil && n < 4; fr, n = fr.caller, n+1 {
		s += " < " + fr.fn.String()
	}
	return s
}

func init() {
	externals["internal/stringslite.Clone"] = func(fr *frame, a []value) value { return a[0] }
	externals["strings.Clone"] = func(fr *frame, a []value) value { return a[0] }
	externals["unique.Make[string]"] = func(fr *frame, a []value) value { return a[0] }
}

// globalCell returns the storage cell of a package-level variable.
func (i *interpreter) globalCell(g *ssa.Global) *value {
	if r, ok := i.globals[g]; ok {
		return r
	}
	cell := zero(mustDeref(g.Type()))
	i.globals[g] = &cell
	return &cell
}

func init() {
	externals["reflect.DeepEqual"] = func(fr *frame, a []value) value {
		return fr.i.concBool(mkScalar(fr.i.deepEqTerm(a[0], a[1], 0), types.Bool))
	}
}

func init() {
	externals["time.ParseDuration"] = func(fr *frame, a []value) value {
		d, err := time.ParseDuration(fr.i.concStr(a[0]))
		if err != nil {
			return tuple{int64(0), fr.i.mkError(fr, err.Error())}
		}
		return tuple{int64(d), iface{}}
	}
	externals["(time.Duration).String"] = func(fr *frame, a []value) value {
		return time.Duration(fr.i.concIntVal(a[0])).String()
	}
}

func init() {
	externals["maps.clone"] = func(fr *frame, a []value) value {
		x := a[0].(iface)
		m, _ := x.v.(*omap)
		if m == nil {
			return x
		}
		n := &omap{kt: m.kt, idx: map[interface{}]*mentry{}}
		for _, e := range m.live() {
			n.insert(fr.i, e.key, e.val)
		}
		return iface{t: x.t, v: n}
	}
}
