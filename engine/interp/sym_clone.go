package interp

// Deep copy of the post-init global state, so that package initialisers are interpreted
// once per exploration instead of once per path.

import "golang.org/x/tools/go/ssa"

type cloner struct {
	ptrs map[*value]*value
	maps map[*omap]*omap
}

func (c *cloner) clone(v value) value {
	switch x := v.(type) {
	case *value:
		if x == nil {
			return x
		}
		if n, ok := c.ptrs[x]; ok {
			return n
		}
		n := new(value)
		c.ptrs[x] = n
		*n = c.clone(*x)
		return n
	case *omap:
		if x == nil {
			return x
		}
		if n, ok := c.maps[x]; ok {
			return n
		}
		n := &omap{kt: x.kt, idx: map[interface{}]*mentry{}}
		c.maps[x] = n
		for _, e := range x.entries {
			if e.deleted {
				continue
			}
			ne := &mentry{key: c.clone(e.key), val: c.clone(e.val)}
			n.entries = append(n.entries, ne)
			if simpleKey(ne.key) {
				n.idx[ne.key] = ne
			} else {
				n.other++
			}
			n.n++
		}
		return n
	case []value:
		if x == nil {
			return x
		}
		full := x[:cap(x)]
		n := make([]value, len(full))
		for k, e := range full {
			n[k] = c.clone(e)
		}
		return n[:len(x)]
	case array:
		n := make(array, len(x))
		for k, e := range x {
			n[k] = c.clone(e)
		}
		return n
	case structure:
		n := make(structure, len(x))
		for k, e := range x {
			n[k] = c.clone(e)
		}
		return n
	case tuple:
		n := make(tuple, len(x))
		for k, e := range x {
			n[k] = c.clone(e)
		}
		return n
	case iface:
		return iface{t: x.t, v: c.clone(x.v)}
	case *closure:
		if x == nil {
			return x
		}
		n := &closure{Fn: x.Fn, Env: make([]value, len(x.Env))}
		for k, e := range x.Env {
			n.Env[k] = c.clone(e)
		}
		return n
	}
	return v
}

func cloneGlobals(g map[*ssa.Global]*value) map[*ssa.Global]*value {
	c := &cloner{ptrs: map[*value]*value{}, maps: map[*omap]*omap{}}
	out := make(map[*ssa.Global]*value, len(g))
	for k, p := range g {
		out[k] = c.clone(p).(*value)
	}
	return out
}
