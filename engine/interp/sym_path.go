package interp

// Path state: decisions, path condition, model, and the branch/choose/assume/assert
// primitives used by the interpreter and by intrinsics.  Exploration is by
// decision replay: an alternative is explored by re-running the harness with a
// forced decision prefix.

import (
	"fmt"
	"sort"
	"strings"
)

type dec struct {
	K byte  // 'b' branch, 'c' choice, 'y' concretised == V, 'n' concretised != V
	V int64 // branch: 0/1; choice: index; conc: value
	N int32 // choice: number of alternatives
}

type workItem struct {
	prefix []dec
	model  map[int]uint64 // model of the path condition at the end of prefix (nil: unknown)
	weak   bool
}

type InputRec struct {
	Kind string      `json:"kind"`
	Name string      `json:"name"`
	Val  interface{} `json:"val"`
}

type inputTerm struct {
	kind, name string
	bytes      []value // string: byte values (uint8 or sym)
	t          *term   // int/bool
	conc       interface{}
}

type Violation struct {
	Label    string     `json:"label"`
	Site     string     `json:"site"`
	Msg      string     `json:"msg"`
	Inputs   []InputRec `json:"inputs"`
	Decs     string     `json:"decisions"`
	Weak     bool       `json:"weak"`
	Observed []string   `json:"observed,omitempty"`
}

type pathAbort struct{ why string }

type pathState struct {
	ts       *termStore
	sv       *solver
	forced   []dec
	decs     []dec
	pc       []*term
	model    map[int]uint64
	modelOK  bool
	defined  map[int]bool
	newItems []workItem
	inputs   []inputTerm
	obs      []obsRec
	viols    []Violation
	covers   map[string]bool
	weak     bool
	steps    int64
	maxSteps int64
	depth    int
	maxDepth int
	nvars    int
	funcs    map[string]bool
	intr     map[string]int
	mapOrder int // 0 insertion, 1 reverse, 2 rotate, 3 sorted, 4 sorted desc
	mapSite  int // if >0: only the n-th multi-entry range site is perturbed (reversed)
	mapSites int // number of multi-entry map range sites met so far
	fs       *vfs
	fsx      *vfsState
	sched    *scheduler
	memo     map[int]uint64
	assumedAscii map[int]bool
	lockDepth    int
	trees        []value
	track        *tracker
}

type obsRec struct {
	label string
	v     value
	t     interface{}
}

func (ps *pathState) defineTerm(t *term) {
	if t.op == "const" || ps.defined[t.id] {
		return
	}
	if t.op == "var" {
		ps.sv.send(fmt.Sprintf("(declare-const %s %s)", t.name, sortName(t.srt)))
		ps.defined[t.id] = true
		return
	}
	for _, a := range t.args {
		ps.defineTerm(a)
	}
	ps.sv.send(fmt.Sprintf("(define-fun t%d () %s %s)", t.id, sortName(t.srt), t.smtDef()))
	ps.defined[t.id] = true
}

func (ps *pathState) assertTerm(t *term) {
	ps.defineTerm(t)
	ps.sv.send("(assert " + t.smtHead() + ")")
}

func (ps *pathState) evalTerm(t *term) uint64 {
	if t.isConst() {
		return t.val
	}
	return t.eval(ps.model, map[int]uint64{})
}

// refreshModel obtains a model of the current path condition.
// Returns false if the path condition is unsatisfiable.
func (ps *pathState) refreshModel() bool {
	r := ps.sv.checkSat()
	switch r {
	case "sat":
		ps.model = ps.sv.getValues(ps.ts.vars)
		ps.modelOK = true
		return true
	case "unsat":
		return false
	}
	ps.weak = true
	ps.modelOK = false
	return true
}

// feasible asks whether pc ∧ c is satisfiable, returning the model if so.
func (ps *pathState) feasible(c *term) (string, map[int]uint64) {
	ps.defineTerm(c)
	ps.sv.send("(push 1)")
	ps.sv.send("(assert " + c.smtHead() + ")")
	r := ps.sv.checkSat()
	var m map[int]uint64
	if r == "sat" {
		m = ps.sv.getValues(ps.ts.vars)
	}
	if !ps.sv.dead {
		ps.sv.send("(pop 1)")
	} else {
		ps.resync()
	}
	return r, m
}

// resync rebuilds the solver state after a solver failure.
func (ps *pathState) resync() {
	ps.sv.close()
	ps.sv.start()
	ps.defined = map[int]bool{}
	ps.sv.send("(push 1)")
	ps.sv.scoped = true
	for _, c := range ps.pc {
		ps.assertTerm(c)
	}
}

func (ps *pathState) record(d dec) { ps.decs = append(ps.decs, d) }

func (ps *pathState) addPC(c *term) {
	ps.pc = append(ps.pc, c)
	ps.assertTerm(c)
}

func (ps *pathState) pushAlt(d dec, m map[int]uint64, weak bool) {
	p := make([]dec, len(ps.decs)+1)
	copy(p, ps.decs)
	p[len(ps.decs)] = d
	ps.newItems = append(ps.newItems, workItem{prefix: p, model: m, weak: weak || ps.weak})
}

// branch decides a symbolic condition.
func (ps *pathState) branch(c *term) bool {
	if c.isConst() {
		return c.val == 1
	}
	idx := len(ps.decs)
	if idx < len(ps.forced) {
		d := ps.forced[idx]
		if d.K != 'b' {
			panic(pathAbort{fmt.Sprintf("replay divergence: expected %c got branch at %d", d.K, idx)})
		}
		ps.record(d)
		if d.V == 1 {
			ps.addPC(c)
		} else {
			ps.addPC(ps.ts.not(c))
		}
		return d.V == 1
	}
	nc := ps.ts.not(c)
	if ps.modelOK {
		s := ps.evalTerm(c) == 1
		other, otherV := nc, int64(0)
		if !s {
			other, otherV = c, 1
		}
		r, m := ps.feasible(other)
		switch r {
		case "sat":
			ps.pushAlt(dec{K: 'b', V: otherV}, m, false)
		case "unknown":
			ps.pushAlt(dec{K: 'b', V: otherV}, nil, true)
		}
		if s {
			ps.record(dec{K: 'b', V: 1})
			ps.addPC(c)
		} else {
			ps.record(dec{K: 'b', V: 0})
			ps.addPC(nc)
		}
		return s
	}
	r1, m1 := ps.feasible(c)
	r0, m0 := ps.feasible(nc)
	if r1 == "unsat" && r0 == "unsat" {
		panic(pathAbort{"infeasible"})
	}
	take1 := r1 != "unsat"
	if take1 {
		if r0 != "unsat" {
			ps.pushAlt(dec{K: 'b', V: 0}, m0, r0 == "unknown")
		}
		ps.record(dec{K: 'b', V: 1})
		ps.addPC(c)
		if r1 == "sat" {
			ps.model, ps.modelOK = m1, true
		} else {
			ps.weak = true
		}
		return true
	}
	ps.record(dec{K: 'b', V: 0})
	ps.addPC(nc)
	if r0 == "sat" {
		ps.model, ps.modelOK = m0, true
	} else {
		ps.weak = true
	}
	return false
}

// choose makes an unconstrained n-way choice.
func (ps *pathState) choose(n int) int {
	if n <= 1 {
		return 0
	}
	idx := len(ps.decs)
	if idx < len(ps.forced) {
		d := ps.forced[idx]
		if d.K != 'c' {
			panic(pathAbort{fmt.Sprintf("replay divergence: expected %c got choice at %d", d.K, idx)})
		}
		ps.record(d)
		return int(d.V)
	}
	for k := n - 1; k >= 1; k-- {
		var m map[int]uint64
		if ps.modelOK {
			m = ps.model
		}
		ps.pushAlt(dec{K: 'c', V: int64(k), N: int32(n)}, m, false)
	}
	ps.record(dec{K: 'c', V: 0, N: int32(n)})
	return 0
}

// assume adds c to the path condition; aborts the path when infeasible.
func (ps *pathState) assume(c *term) {
	if c.isTrue() {
		return
	}
	if c.isFalse() {
		panic(pathAbort{"assume"})
	}
	ps.addPC(c)
	if len(ps.decs) < len(ps.forced) {
		return // the item's model already satisfies the whole prefix
	}
	if ps.modelOK && ps.evalTerm(c) == 1 {
		return
	}
	if !ps.refreshModel() {
		panic(pathAbort{"assume"})
	}
}

func (ps *pathState) ensureModel() bool {
	if ps.modelOK {
		return true
	}
	return ps.refreshModel() && ps.modelOK
}

// concInt concretises a symbolic integer term (value enumeration by decisions).
func (ps *pathState) concInt(t *term) uint64 {
	for {
		if t.isConst() {
			return t.val
		}
		idx := len(ps.decs)
		if idx < len(ps.forced) {
			d := ps.forced[idx]
			k := ps.ts.constBV(t.srt, uint64(d.V))
			switch d.K {
			case 'y':
				ps.record(d)
				ps.addPC(ps.ts.eq(t, k))
				return uint64(d.V) & mask(t.srt)
			case 'n':
				ps.record(d)
				ps.addPC(ps.ts.not(ps.ts.eq(t, k)))
				continue
			}
			panic(pathAbort{fmt.Sprintf("replay divergence: expected %c got conc at %d", d.K, idx)})
		}
		if !ps.ensureModel() {
			panic(pathAbort{"conc: no model"})
		}
		v := ps.evalTerm(t)
		k := ps.ts.constBV(t.srt, v)
		e := ps.ts.eq(t, k)
		r, m := ps.feasible(ps.ts.not(e))
		switch r {
		case "sat":
			ps.pushAlt(dec{K: 'n', V: int64(v)}, m, false)
		case "unknown":
			ps.pushAlt(dec{K: 'n', V: int64(v)}, nil, true)
		}
		ps.record(dec{K: 'y', V: int64(v)})
		ps.addPC(e)
		return v
	}
}

func decString(ds []dec) string {
	var sb strings.Builder
	for _, d := range ds {
		switch d.K {
		case 'b':
			if d.V == 1 {
				sb.WriteByte('T')
			} else {
				sb.WriteByte('F')
			}
		case 'c':
			fmt.Fprintf(&sb, "[%d/%d]", d.V, d.N)
		case 'y':
			fmt.Fprintf(&sb, "(=%d)", d.V)
		case 'n':
			fmt.Fprintf(&sb, "(!%d)", d.V)
		}
	}
	return sb.String()
}

// concreteInputs renders the nondet inputs of this path under model m.
func (ps *pathState) concreteInputs(m map[int]uint64) []InputRec {
	memo := map[int]uint64{}
	var out []InputRec
	for _, in := range ps.inputs {
		r := InputRec{Kind: in.kind, Name: in.name}
		switch in.kind {
		case "string":
			b := make([]byte, len(in.bytes))
			for i, x := range in.bytes {
				switch x := x.(type) {
				case uint8:
					b[i] = x
				case sym:
					b[i] = byte(x.t.eval(m, memo))
				}
			}
			r.Val = string(b)
		case "int":
			r.Val = signExt(in.t.eval(m, memo), in.t.srt)
		case "bool":
			r.Val = in.t.eval(m, memo) == 1
		default:
			r.Val = in.conc
		}
		out = append(out, r)
	}
	return out
}

func (ps *pathState) violate(label, site, msg string, m map[int]uint64) {
	for _, v := range ps.viols {
		if v.Label == label {
			return
		}
	}
	v := Violation{Label: label, Site: site, Msg: msg, Decs: decString(ps.decs), Weak: ps.weak}
	if m == nil {
		v.Weak = true
		m = map[int]uint64{}
	}
	v.Inputs = ps.concreteInputs(m)
	memo := map[int]uint64{}
	for _, o := range ps.obs {
		v.Observed = append(v.Observed, o.label+"="+dumpValue(o.v, o.t, m, memo, 0))
	}
	ps.viols = append(ps.viols, v)
}

// assertCond checks an assertion; on a feasible violation records it, then
// continues under the assumption that it holds.
func (ps *pathState) assertCond(label, site string, c *term) {
	if c.isTrue() {
		return
	}
	if c.isFalse() {
		if ps.ensureModel() {
			ps.violate(label, site, "", ps.model)
		} else {
			ps.violate(label, site, "", nil)
		}
		panic(pathAbort{"assert-false"})
	}
	if len(ps.decs) < len(ps.forced) {
		// inside the forced prefix the assertion was already examined by the parent path
		ps.addPC(c)
		return
	}
	if ps.modelOK && ps.evalTerm(c) == 0 {
		ps.violate(label, site, "", ps.model)
	} else {
		r, m := ps.feasible(ps.ts.not(c))
		switch r {
		case "sat":
			ps.violate(label, site, "", m)
		case "unknown":
			ps.weak = true
		}
	}
	ps.assume(c)
}

func sortedKeys(m map[string]bool) []string {
	var out []string
	for k := range m {
		out = append(out, k)
	}
	sort.Strings(out)
	return out
}
