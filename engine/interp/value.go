// Copyright 2013 The Go Authors. All rights reserved.
// Use of this source code is governed by a BSD-style
// license that can be found in the LICENSE file.

package interp

// Values
//
// All interpreter values are "boxed" in the empty interface, value.
// The range of possible dynamic types within value are:
//
// - bool
// - numbers (all built-in int/float/complex types are distinguished)
// - string
// - map[value]value --- maps for which  usesBuiltinMap(keyType)
//   *hashmap        --- maps for which !usesBuiltinMap(keyType)
// - chan value
// - []value --- slices
// - iface --- interfaces.
// - structure --- structs.  Fields are ordered and accessed by numeric indices.
// - array --- arrays.
// - *value --- pointers.  Careful: *value is a distinct type from *array etc.
// - *ssa.Function \
//   *ssa.Builtin   } --- functions.  A nil 'func' is always of type *ssa.Function.
//   *closure      /
// - tuple --- as returned by Return, Next, "value,ok" modes, etc.
// - iter --- iterators from 'range' over map or string.
// - bad --- a poison pill for locals that have gone out of scope.
// - rtype -- the interpreter's concrete implementation of reflect.Type
// - **deferred -- the address of a frame's defer stack for a Defer._Stack.
//
// Note that nil is not on this list.
//
// Pay close attention to whether or not the dynamic type is a pointer.
// The compiler cannot help you since value is an empty interface.

import (
	"bytes"
	"fmt"
	"go/types"
	"io"
	"go/token"
	"strings"
	"sync"
	"unsafe"

	"golang.org/x/tools/go/ssa"
)

type value interface{}

type tuple []value

type array []value

type iface struct {
	t types.Type // never an "untyped" type
	v value
}

type structure []value

// For map, array, *array, slice, string or channel.
type iter interface {
	// next returns a Tuple (key, value, ok).
	// key and value are unaliased, e.g. copies of the sequence element.
	next() tuple
}

type closure struct {
	Fn  *ssa.Function
	Env []value
}

type bad struct{}

type rtype struct {
	t types.Type
}

// Equivalence relation:

var (
	mu sync.Mutex
)

// nil-tolerant variant of types.Identical.
func sameType(x, y types.Type) bool {
	if x == nil {
		return y == nil
	}
	return y != nil && types.Identical(x, y)
}

// equals returns true iff x and y are equal according to Go's
// linguistic equivalence relation for type t.  Symbolic operands are
// decided by a branch on the equality term.
func equals(i *interpreter, t types.Type, x, y value) bool {
	if isSymbolic(x) || isSymbolic(y) {
		if isStr(x) || isStr(y) {
			return i.ps.branch(i.strEqTerm(x, y))
		}
		return i.concBool(i.symBinop(token.EQL, x, y))
	}
	switch x := x.(type) {
	case bool:
		return x == y.(bool)
	case int:
		return x == y.(int)
	case int8:
		return x == y.(int8)
	case int16:
		return x == y.(int16)
	case int32:
		return x == y.(int32)
	case int64:
		return x == y.(int64)
	case uint:
		return x == y.(uint)
	case uint8:
		return x == y.(uint8)
	case uint16:
		return x == y.(uint16)
	case uint32:
		return x == y.(uint32)
	case uint64:
		return x == y.(uint64)
	case uintptr:
		return x == y.(uintptr)
	case float32:
		return x == y.(float32)
	case float64:
		return x == y.(float64)
	case complex64:
		return x == y.(complex64)
	case complex128:
		return x == y.(complex128)
	case string:
		return x == y.(string)
	case *value:
		return x == y.(*value)
	case *schan:
		return x == y.(*schan)
	case unsafe.Pointer:
		return x == y.(unsafe.Pointer)
	case structure:
		ys := y.(structure)
		tStruct := t.Underlying().(*types.Struct)
		for k, n := 0, tStruct.NumFields(); k < n; k++ {
			if f := tStruct.Field(k); f.Name() != "_" {
				if !equals(i, f.Type(), x[k], ys[k]) {
					return false
				}
			}
		}
		return true
	case array:
		ya := y.(array)
		tElt := t.Underlying().(*types.Array).Elem()
		for k, xi := range x {
			if !equals(i, tElt, xi, ya[k]) {
				return false
			}
		}
		return true
	case iface:
		yi := y.(iface)
		if !sameType(x.t, yi.t) {
			return false
		}
		if x.t == nil {
			return true
		}
		switch x.t.Underlying().(type) {
		case *types.Map, *types.Slice, *types.Signature:
			panic(fmt.Sprintf("runtime error: comparing uncomparable type %s", x.t))
		}
		return equals(i, x.t, x.v, yi.v)
	case rtype:
		return types.Identical(x.t, y.(rtype).t)
	}

	// Since map, func and slice don't support comparison, this
	// case is only reachable if one of x or y is literally nil
	// (handled in eqnil) or via interface{} values.
	panic(fmt.Sprintf("runtime error: comparing uncomparable type %s", t))
}

// reflect.Value struct values don't have a fixed shape, since the
// payload can be a scalar or an aggregate depending on the instance.
// So store (and load) can't simply use recursion over the shape of the
// rhs value, or the lhs, to copy the value; we need the static type
// information.  (We can't make reflect.Value a new basic data type
// because its "structness" is exposed to Go programs.)

// load returns the value of type T in *addr.
func load(T types.Type, addr *value) value {
	switch T := T.Underlying().(type) {
	case *types.Struct:
		v := (*addr).(structure)
		a := make(structure, len(v))
		for i := range a {
			a[i] = load(T.Field(i).Type(), &v[i])
		}
		return a
	case *types.Array:
		v := (*addr).(array)
		a := make(array, len(v))
		for i := range a {
			a[i] = load(T.Elem(), &v[i])
		}
		return a
	default:
		return *addr
	}
}

// store stores value v of type T into *addr.
func store(T types.Type, addr *value, v value) {
	switch T := T.Underlying().(type) {
	case *types.Struct:
		lhs := (*addr).(structure)
		rhs := v.(structure)
		for i := range lhs {
			store(T.Field(i).Type(), &lhs[i], rhs[i])
		}
	case *types.Array:
		lhs := (*addr).(array)
		rhs := v.(array)
		for i := range lhs {
			store(T.Elem(), &lhs[i], rhs[i])
		}
	default:
		*addr = v
	}
}

// Prints in the style of built-in println.
// (More or less; in gc println is actually a compiler intrinsic and
// can distinguish println(1) from println(interface{}(1)).)
func writeValue(buf *bytes.Buffer, v value) {
	switch v := v.(type) {
	case nil, bool, int, int8, int16, int32, int64, uint, uint8, uint16, uint32, uint64, uintptr, float32, float64, complex64, complex128, string:
		fmt.Fprintf(buf, "%v", v)

	case *omap:
		buf.WriteString("map[")
		sep := ""
		for _, e := range v.live() {
			buf.WriteString(sep)
			sep = " "
			writeValue(buf, e.key)
			buf.WriteString(":")
			writeValue(buf, e.val)
		}
		buf.WriteString("]")

	case sstr:
		buf.WriteString("<symstr")
		for _, b := range v.b {
			if c, ok := b.(uint8); ok {
				buf.WriteByte(c)
			} else {
				buf.WriteByte('?')
			}
		}
		buf.WriteString(">")

	case sym:
		fmt.Fprintf(buf, "<sym t%d>", v.t.id)

	case *schan:
		fmt.Fprintf(buf, "%p", v) // (an address)

	case *value:
		if v == nil {
			buf.WriteString("<nil>")
		} else {
			fmt.Fprintf(buf, "%p", v)
		}

	case iface:
		fmt.Fprintf(buf, "(%s, ", v.t)
		writeValue(buf, v.v)
		buf.WriteString(")")

	case structure:
		buf.WriteString("{")
		for i, e := range v {
			if i > 0 {
				buf.WriteString(" ")
			}
			writeValue(buf, e)
		}
		buf.WriteString("}")

	case array:
		buf.WriteString("[")
		for i, e := range v {
			if i > 0 {
				buf.WriteString(" ")
			}
			writeValue(buf, e)
		}
		buf.WriteString("]")

	case []value:
		buf.WriteString("[")
		for i, e := range v {
			if i > 0 {
				buf.WriteString(" ")
			}
			writeValue(buf, e)
		}
		buf.WriteString("]")

	case *ssa.Function, *ssa.Builtin, *closure:
		fmt.Fprintf(buf, "%p", v) // (an address)

	case rtype:
		buf.WriteString(v.t.String())

	case tuple:
		// Unreachable in well-formed Go programs
		buf.WriteString("(")
		for i, e := range v {
			if i > 0 {
				buf.WriteString(", ")
			}
			writeValue(buf, e)
		}
		buf.WriteString(")")

	default:
		fmt.Fprintf(buf, "<%T>", v)
	}
}

// Implements printing of Go values in the style of built-in println.
func toString(v value) string {
	var b bytes.Buffer
	writeValue(&b, v)
	return b.String()
}

// ------------------------------------------------------------------------
// Iterators

type stringIter struct {
	*strings.Reader
	i int
}

func (it *stringIter) next() tuple {
	okv := make(tuple, 3)
	ch, n, err := it.ReadRune()
	ok := err != io.EOF
	okv[0] = ok
	if ok {
		okv[1] = it.i
		okv[2] = ch
	}
	it.i += n
	return okv
}

