package interp

// Engine model of the mapstructure binder as configured by loader.Transform
// (TagName "yaml", hooks nameServices / decoderHook / cast / secretConfigDecoderHook,
// no weak typing). Part of the trusted base (DESIGN §3.5); sampled paths are validated
// natively. Custom DecodeMapstructure methods and the cast helpers are NOT modelled: they
// are the real code, called through the interpreter.

import (
	"fmt"
	"go/token"
	"go/types"
	"reflect"
	"strings"
)

type bindErr struct{ msg string }

func (i *interpreter) typeName(t types.Type) string {
	return types.TypeString(t, func(p *types.Package) string { return p.Name() })
}

func kindName(v value) string {
	switch x := v.(type) {
	case nil:
		return "nil"
	case iface:
		if x.t == nil {
			return "nil"
		}
		return kindName(x.v)
	case string, sstr:
		return "string"
	case bool:
		return "bool"
	case int, int64, int32:
		return "int"
	case float64, float32:
		return "float64"
	case []value:
		return "slice"
	case *omap:
		return "map"
	case sym:
		if x.t.srt == 0 {
			return "bool"
		}
		return "int"
	}
	return fmt.Sprintf("%T", v)
}

func unwrapAny(v value) value {
	if x, ok := v.(iface); ok {
		if x.t == nil {
			return nil
		}
		return x.v
	}
	return v
}

// asAny wraps a raw tree value as an interface value with its dynamic type.
func asAny(v value) value {
	switch x := v.(type) {
	case iface:
		return x
	case nil:
		return iface{}
	case string, sstr:
		return iface{t: types.Typ[types.String], v: x}
	case bool:
		return iface{t: types.Typ[types.Bool], v: x}
	case int:
		return iface{t: types.Typ[types.Int], v: x}
	case int64:
		return iface{t: types.Typ[types.Int64], v: x}
	case float64:
		return iface{t: types.Typ[types.Float64], v: x}
	case sym:
		return iface{t: types.Typ[x.k], v: x}
	case []value:
		return iface{t: types.NewSlice(anyType), v: x}
	case *omap:
		return iface{t: types.NewMap(types.Typ[types.String], anyType), v: x}
	}
	return iface{t: types.Typ[types.Invalid], v: v}
}

var anyType = types.NewInterfaceType(nil, nil).Complete()

// bind decodes src (a raw tree value, possibly wrapped in an interface) into a new value of type dst.
func (i *interpreter) bind(fr *frame, src value, dst types.Type, path string) value {
	raw := unwrapAny(src)
	// hook: nameServices
	if n, ok := dst.(*types.Named); ok && n.Obj().Name() == "Services" && n.Obj().Pkg() != nil && strings.HasSuffix(n.Obj().Pkg().Path(), "/types") {
		if m, ok := raw.(*omap); ok {
			for _, e := range m.live() {
				if em, ok := unwrapAny(e.val).(*omap); ok && em != nil {
					em.insert(i, "name", asAny(e.key))
				} else {
					// the real hook calls elem.Elem().SetMapIndex on a non-map: reflect panics
					panic(targetPanic{iface{t: types.Typ[types.String], v: "reflect: call of reflect.Value.SetMapIndex on " + kindName(e.val) + " Value"}})
				}
			}
		}
	}
	// hook: decoderHook (DecodeMapstructure on the type or its pointer)
	if _, isPtr := dst.Underlying().(*types.Pointer); !isPtr {
		if m := i.methodByName(types.NewPointer(dst), "DecodeMapstructure"); m != nil && raw != nil {
			cell := zero(dst)
			p := &cell
			r := call(i, fr, token.NoPos, m, []value{p, asAny(raw)})
			if e, ok := r.(iface); ok && e.t != nil {
				msg := call(i, fr, token.NoPos, i.methodByName(e.t, "Error"), []value{e.v})
				panic(bindErr{fmt.Sprintf("'%s' %s", path, i.concStr(msg))})
			}
			return load(dst, p)
		}
	}
	// hook: secretConfigDecoderHook - the real function (it only needs reflect.Type values, which the
	// interpreter's reflect emulation provides); called like mapstructure does for every map-valued node
	if m, ok := raw.(*omap); ok && m != nil {
		if hook := i.loaderFunc("secretConfigDecoderHook"); hook != nil {
			from := makeReflectType(rtype{types.NewMap(types.Typ[types.String], anyType)})
			to := makeReflectType(rtype{dst})
			res := call(i, fr, token.NoPos, hook, []value{from, to, asAny(raw)})
			if tp, ok := res.(tuple); ok && len(tp) == 2 {
				if e, ok := tp[1].(iface); ok && e.t != nil {
					msg := call(i, fr, token.NoPos, i.methodByName(e.t, "Error"), []value{e.v})
					panic(bindErr{fmt.Sprintf("'%s' %s", path, i.concStr(msg))})
				}
				raw = unwrapAny(tp[0])
			}
		}
	}
	if raw == nil {
		return zero(dst)
	}
	switch u := dst.Underlying().(type) {
	case *types.Interface:
		if x, ok := src.(iface); ok && x.t != nil {
			switch x.t.Underlying().(type) {
			case *types.Pointer, *types.Struct:
				// an already typed value (a decoded known extension): kept as it is
				return x
			}
		}
		return asAny(raw)
	case *types.Basic:
		return i.bindBasic(fr, raw, dst, u, path)
	case *types.Pointer:
		v := i.bind(fr, raw, u.Elem(), path)
		cell := v
		return &cell
	case *types.Slice:
		l, ok := raw.([]value)
		if !ok {
			panic(bindErr{fmt.Sprintf("'%s': source data must be an array or slice, got %s", path, kindName(raw))})
		}
		out := make([]value, len(l))
		for k, e := range l {
			out[k] = i.bind(fr, e, u.Elem(), fmt.Sprintf("%s[%d]", path, k))
		}
		return out
	case *types.Map:
		m, ok := raw.(*omap)
		if !ok {
			panic(bindErr{fmt.Sprintf("'%s' expected a map, got '%s'", path, kindName(raw))})
		}
		out := makeMap(u.Key(), 0).(*omap)
		if m == nil {
			return out
		}
		for _, e := range m.live() {
			k := i.bind(fr, e.key, u.Key(), path)
			out.insert(i, k, i.bind(fr, e.val, u.Elem(), path+"["+i.concStrLoose(e.key)+"]"))
		}
		return out
	case *types.Struct:
		m, ok := raw.(*omap)
		if !ok {
			panic(bindErr{fmt.Sprintf("'%s' expected a map, got '%s'", path, kindName(raw))})
		}
		out := zero(dst).(structure)
		if i.bindInit != nil {
			// top level: decode into the existing struct (fields absent from the source keep their values)
			if ex, ok := i.bindInit.(structure); ok && len(ex) == len(out) {
				out = ex
			}
			i.bindInit = nil
		}
		for k := 0; k < u.NumFields(); k++ {
			f := u.Field(k)
			if !f.Exported() {
				continue
			}
			tag := reflect.StructTag(u.Tag(k)).Get("yaml")
			name, _, _ := strings.Cut(tag, ",")
			if name == "-" {
				continue
			}
			if name == "" {
				name = f.Name()
			}
			var val value
			found := false
			if m != nil {
				if v, ok := m.lookup(i, name); ok {
					val, found = v, true
				} else {
					for _, e := range m.live() {
						if ks, ok := e.key.(string); ok && strings.EqualFold(ks, name) {
							val, found = e.val, true
							break
						}
					}
				}
			}
			if !found {
				continue
			}
			p := name
			if path != "" {
				p = path + "." + name
			}
			out[k] = i.bind(fr, val, f.Type(), p)
		}
		return out
	}
	panic(pathAbort{"unsupported: binder target type " + dst.String()})
}

func (i *interpreter) concStrLoose(v value) string {
	if isStr(v) {
		return i.concStr(v)
	}
	return toString(v)
}

func (i *interpreter) loaderFunc(name string) value {
	for _, p := range i.prog.AllPackages() {
		if strings.HasSuffix(p.Pkg.Path(), "compose-go/v2/loader") {
			if f := p.Func(name); f != nil {
				return f
			}
		}
	}
	return nil
}

func (i *interpreter) bindBasic(fr *frame, raw value, dst types.Type, u *types.Basic, path string) value {
	fail := func() value {
		panic(bindErr{fmt.Sprintf("'%s' expected type '%s', got unconvertible type '%s'", path, u.Name(), kindName(raw))})
	}
	// hook: cast
	castWith := func(fn string) value {
		f := i.loaderFunc(fn)
		if f == nil {
			panic(pathAbort{"unsupported: loader." + fn + " not found"})
		}
		r := call(i, fr, token.NoPos, f, []value{raw}).(tuple)
		if e, ok := r[1].(iface); ok && e.t != nil {
			msg := call(i, fr, token.NoPos, i.methodByName(e.t, "Error"), []value{e.v})
			panic(bindErr{fmt.Sprintf("'%s' %s", path, i.concStr(msg))})
		}
		return unwrapAny(r[0])
	}
	if isStr(raw) {
		switch u.Kind() {
		case types.Bool:
			raw = castWith("toBoolean")
		case types.Int:
			raw = castWith("toInt")
		case types.Int64:
			raw = castWith("toInt64")
		case types.Float32:
			raw = castWith("toFloat32")
		case types.Float64:
			raw = castWith("toFloat")
		}
	} else if u.Kind() == types.String {
		switch x := raw.(type) {
		case int:
			raw = fmt.Sprint(x)
		case sym:
			if x.t.srt != 0 {
				raw = fmt.Sprint(i.concIntVal(x))
			}
		}
	}
	info := u.Info()
	switch {
	case u.Kind() == types.String:
		if isStr(raw) {
			return raw
		}
		return fail()
	case u.Kind() == types.Bool:
		switch x := raw.(type) {
		case bool:
			return x
		case sym:
			if x.t.srt == 0 {
				return x
			}
		}
		return fail()
	case info&types.IsInteger != 0:
		var n int64
		switch x := raw.(type) {
		case int:
			n = int64(x)
		case int64:
			n = x
		case int32:
			n = int64(x)
		case uint32:
			n = int64(x)
		case uint64:
			n = int64(x)
		case float64:
			n = int64(x)
		case float32:
			n = int64(x)
		case sym:
			if x.t.srt == 0 {
				return fail()
			}
			w, _ := kindWidth(u.Kind())
			_, signed := kindWidth(x.k)
			return mkScalar(i.ps.ts.resize(x.t, w, signed), u.Kind())
		default:
			return fail()
		}
		if info&types.IsUnsigned != 0 && n < 0 {
			panic(bindErr{fmt.Sprintf("cannot parse '%s', %d overflows uint", path, n)})
		}
		return fromConst(uint64(n), u.Kind())
	case info&types.IsFloat != 0:
		var f float64
		switch x := raw.(type) {
		case int:
			f = float64(x)
		case int64:
			f = float64(x)
		case float64:
			f = x
		case float32:
			f = float64(x)
		case sym:
			if x.t.srt == 0 {
				return fail()
			}
			// floats are concrete in the engine: the integer is fixed to its value under the current model
			f = float64(i.concIntVal(x))
		default:
			return fail()
		}
		if u.Kind() == types.Float32 {
			return float32(f)
		}
		return f
	}
	panic(pathAbort{"unsupported: binder basic kind " + u.String()})
}

func init() {
	externals["github.com/compose-spec/compose-go/v2/loader.Transform"] = func(fr *frame, a []value) value {
		i := fr.i
		target := a[1].(iface)
		pt, ok := target.t.Underlying().(*types.Pointer)
		if !ok {
			return i.mkError(fr, "result must be a pointer")
		}
		var res value
		func() {
			defer func() {
				if r := recover(); r != nil {
					if be, ok := r.(bindErr); ok {
						res = i.mkError(fr, "1 error(s) decoding:\n\n* "+be.msg)
						return
					}
					panic(r)
				}
			}()
			if _, isIface := pt.Elem().Underlying().(*types.Interface); isIface {
				// decoding into an interface that already holds a typed value (a known extension's prototype):
				// like mapstructure, decode into that type - a struct value is replaced by a decoded copy, a nil
				// pointer gets a fresh pointee, a non-nil pointer is decoded into in place
				if cur, ok := load(pt.Elem(), target.v.(*value)).(iface); ok && cur.t != nil {
					switch ct := cur.t.Underlying().(type) {
					case *types.Struct:
						i.bindInit = cur.v
						v := i.bind(fr, a[0], cur.t, "")
						i.bindInit = nil
						store(pt.Elem(), target.v.(*value), iface{t: cur.t, v: v})
						res = iface{}
						return
					case *types.Pointer:
						if _, ok := ct.Elem().Underlying().(*types.Struct); ok {
							cell, _ := cur.v.(*value)
							if cell == nil {
								z := zero(ct.Elem())
								cell = &z
							}
							i.bindInit = *cell
							v := i.bind(fr, a[0], ct.Elem(), "")
							i.bindInit = nil
							*cell = v
							store(pt.Elem(), target.v.(*value), iface{t: cur.t, v: cell})
							res = iface{}
							return
						}
					}
				}
			}
			i.bindInit = load(pt.Elem(), target.v.(*value))
			v := i.bind(fr, a[0], pt.Elem(), "")
			i.bindInit = nil
			store(pt.Elem(), target.v.(*value), v)
			res = iface{}
		}()
		i.ps.intr["binder-model"]++
		return res
	}
}
