package interp

// Intrinsics for package strings / unicode / utf8 over possibly symbolic strings.
// Each function forks (by a branch decision) only where the shape of its result
// depends on symbolic bytes; with fully concrete arguments the native function is used.

import (
	"fmt"
	"go/token"
	"go/types"
	"strings"
	"unicode"
	"unicode/utf8"
)

func allConcrete(vs ...value) bool {
	for _, v := range vs {
		if isSymbolic(v) {
			return false
		}
		if l, ok := v.([]value); ok {
			for _, e := range l {
				if isSymbolic(e) {
					return false
				}
			}
		}
	}
	return true
}

// matchAt returns the term "s[k:k+len(sub)] == sub"; caller guarantees bounds.
func (i *interpreter) matchAt(s []value, k int, sub []value) *term {
	ts := i.ps.ts
	r := ts.constBool(true)
	for j := range sub {
		r = ts.and(r, ts.eq(i.termOf(s[k+j]), i.termOf(sub[j])))
		if r.isFalse() {
			return r
		}
	}
	return r
}

func (i *interpreter) indexOf(s, sub []value, from int) int {
	for k := from; k+len(sub) <= len(s); k++ {
		if i.ps.branch(i.matchAt(s, k, sub)) {
			return k
		}
	}
	return -1
}

func (i *interpreter) lastIndexOf(s, sub []value) int {
	for k := len(s) - len(sub); k >= 0; k-- {
		if i.ps.branch(i.matchAt(s, k, sub)) {
			return k
		}
	}
	return -1
}

// byteInSet returns the term "b is one of the bytes of set".
func (i *interpreter) byteInSet(b value, set []value) *term {
	ts := i.ps.ts
	r := ts.constBool(false)
	for _, c := range set {
		r = ts.or(r, ts.eq(i.termOf(b), i.termOf(c)))
	}
	return r
}

func (i *interpreter) isSpaceTerm(b value) *term {
	// ASCII white space as in unicode.IsSpace for Latin-1: \t \n \v \f \r ' ' (0x85, 0xA0 need non-ASCII)
	ts := i.ps.ts
	t := i.termOf(b)
	w := t.srt
	r := ts.eq(t, ts.constBV(w, ' '))
	r = ts.or(r, ts.and(ts.cmp("bvuge", t, ts.constBV(w, 9)), ts.cmp("bvule", t, ts.constBV(w, 13))))
	if w == 8 {
		// bytes 0x85 and 0xA0 are not spaces on their own in UTF-8 (they are continuation bytes)
		return r
	}
	r = ts.or(r, ts.or(ts.eq(t, ts.constBV(w, 0x85)), ts.eq(t, ts.constBV(w, 0xA0))))
	return r
}

func (i *interpreter) rangeTerm(t *term, lo, hi uint64) *term {
	ts := i.ps.ts
	return ts.and(ts.cmp("bvuge", t, ts.constBV(t.srt, lo)), ts.cmp("bvule", t, ts.constBV(t.srt, hi)))
}

func (i *interpreter) lowerByte(b value) value {
	switch x := b.(type) {
	case uint8:
		if 'A' <= x && x <= 'Z' {
			return x + 32
		}
		return x
	case sym:
		ts := i.ps.ts
		return mkScalar(ts.ite(i.rangeTerm(x.t, 'A', 'Z'), ts.bin("bvadd", x.t, ts.constBV(x.t.srt, 32)), x.t), x.k)
	}
	panic("lowerByte")
}

func (i *interpreter) upperByte(b value) value {
	switch x := b.(type) {
	case uint8:
		if 'a' <= x && x <= 'z' {
			return x - 32
		}
		return x
	case sym:
		ts := i.ps.ts
		return mkScalar(ts.ite(i.rangeTerm(x.t, 'a', 'z'), ts.bin("bvsub", x.t, ts.constBV(x.t.srt, 32)), x.t), x.k)
	}
	panic("upperByte")
}

// requireASCII makes sure all symbolic bytes of s are 7-bit (else the path leaves the bound).
func (i *interpreter) requireASCII(s []value) {
	for _, b := range s {
		if x, ok := b.(sym); ok {
			i.asciiByte(x)
		}
	}
}

func strList(vs []value) []value { return vs }

func mkStrList(parts [][]value) value {
	out := make([]value, len(parts))
	for k, p := range parts {
		out[k] = mkStr(p)
	}
	return out
}

func nativeStrs(v value) []string {
	l := v.([]value)
	out := make([]string, len(l))
	for k, s := range l {
		out[k] = s.(string)
	}
	return out
}

func valStrs(ss []string) value {
	if ss == nil {
		return []value(nil)
	}
	out := make([]value, len(ss))
	for k, s := range ss {
		out[k] = s
	}
	return out
}

func (i *interpreter) splitN(s, sep []value, n int) [][]value {
	if n == 0 {
		return nil
	}
	if len(sep) == 0 {
		// explode into characters (ASCII for symbolic)
		i.requireASCII(s)
		var out [][]value
		str := mkStr(s)
		if c, ok := str.(string); ok {
			for _, p := range strings.SplitN(c, "", n) {
				out = append(out, strBytes(p))
			}
			return out
		}
		for k := range s {
			if n > 0 && len(out) == n-1 {
				out = append(out, s[k:])
				return out
			}
			out = append(out, s[k:k+1])
		}
		return out
	}
	var out [][]value
	from := 0
	for n < 0 || len(out) < n-1 {
		k := i.indexOf(s, sep, from)
		if k < 0 {
			break
		}
		out = append(out, s[from:k:k])
		from = k + len(sep)
	}
	out = append(out, s[from:])
	return out
}

func (i *interpreter) callPred(fr *frame, f value, r value) bool {
	return i.concBool(call(i, fr, token.NoPos, f, []value{r}))
}

func (i *interpreter) trimLeftFunc(fr *frame, s []value, f value) []value {
	i.requireASCII(s)
	k := 0
	for k < len(s) {
		r, n := i.runeAt(s, k)
		if !i.callPred(fr, f, r) {
			break
		}
		k += n
	}
	return s[k:]
}

func (i *interpreter) trimRightFunc(fr *frame, s []value, f value) []value {
	i.requireASCII(s)
	k := len(s)
	for k > 0 {
		r, n := i.lastRune(s[:k])
		if !i.callPred(fr, f, r) {
			break
		}
		k -= n
	}
	return s[:k]
}

// runeAt decodes the rune starting at s[k] (symbolic bytes are ASCII).
func (i *interpreter) runeAt(s []value, k int) (value, int) {
	switch b := s[k].(type) {
	case sym:
		return i.byteToRune(b), 1
	case uint8:
		if b < 0x80 {
			return int32(b), 1
		}
		var buf []byte
		for q := k; q < len(s) && len(buf) < 4; q++ {
			c, ok := s[q].(uint8)
			if !ok {
				break
			}
			buf = append(buf, c)
		}
		r, n := utf8.DecodeRune(buf)
		return r, n
	}
	panic("runeAt")
}

func (i *interpreter) lastRune(s []value) (value, int) {
	k := len(s) - 1
	switch b := s[k].(type) {
	case sym:
		return i.byteToRune(b), 1
	case uint8:
		if b < 0x80 {
			return int32(b), 1
		}
		var buf []byte
		start := k
		for start > 0 && k-start < 3 {
			c, ok := s[start].(uint8)
			if !ok || c&0xC0 != 0x80 {
				break
			}
			start--
		}
		for q := start; q <= k; q++ {
			c, ok := s[q].(uint8)
			if !ok {
				return int32(utf8.RuneError), 1
			}
			buf = append(buf, c)
		}
		r, n := utf8.DecodeLastRune(buf)
		return r, n
	}
	panic("lastRune")
}

func (i *interpreter) trimSet(s, set []value, left, right bool) []value {
	a, b := 0, len(s)
	if left {
		for a < b && i.ps.branch(i.byteInSet(s[a], set)) {
			a++
		}
	}
	if right {
		for b > a && i.ps.branch(i.byteInSet(s[b-1], set)) {
			b--
		}
	}
	return s[a:b]
}

func (i *interpreter) replaceStr(s, old, new []value, n int) []value {
	if n == 0 || (len(old) == 0 && len(s) == 0 && false) {
		return s
	}
	if len(old) == 0 {
		// insert new before each rune (ASCII for symbolic)
		i.requireASCII(s)
		var out []value
		cnt := 0
		for k := 0; k <= len(s); k++ {
			if n < 0 || cnt < n {
				out = append(out, new...)
				cnt++
			}
			if k < len(s) {
				out = append(out, s[k])
			}
		}
		return out
	}
	var out []value
	from := 0
	cnt := 0
	for n < 0 || cnt < n {
		k := i.indexOf(s, old, from)
		if k < 0 {
			break
		}
		out = append(out, s[from:k]...)
		out = append(out, new...)
		from = k + len(old)
		cnt++
	}
	out = append(out, s[from:]...)
	return out
}

func (i *interpreter) fields(s []value) [][]value {
	i.requireASCII(s)
	var out [][]value
	k := 0
	for k < len(s) {
		for k < len(s) && i.ps.branch(i.isSpaceTerm(s[k])) {
			k++
		}
		if k >= len(s) {
			break
		}
		st := k
		for k < len(s) && !i.ps.branch(i.isSpaceTerm(s[k])) {
			k++
		}
		out = append(out, s[st:k:k])
	}
	return out
}

func init() {
	ext := func(name string, f externalFn) { externals[name] = f }
	B := strBytes
	N := func(v value) string { return v.(string) }
	for _, n := range []string{"strings.Count", "strings.EqualFold", "strings.Index", "strings.IndexByte", "strings.Replace", "strings.ToLower",
		"strconv.Atoi", "strconv.Itoa", "sort.Strings", "sort.Ints", "sort.Float64s", "unicode/utf8.DecodeRuneInString", "bytes.Equal", "bytes.IndexByte", "os.Getenv"} {
		delete(externals, n)
	}
	ext("strings.Index", func(fr *frame, a []value) value {
		if allConcrete(a...) {
			return strings.Index(N(a[0]), N(a[1]))
		}
		return fr.i.indexOf(B(a[0]), B(a[1]), 0)
	})
	ext("strings.IndexByte", func(fr *frame, a []value) value {
		if allConcrete(a...) {
			return strings.IndexByte(N(a[0]), a[1].(byte))
		}
		return fr.i.indexOf(B(a[0]), []value{a[1]}, 0)
	})
	ext("strings.IndexRune", func(fr *frame, a []value) value {
		if allConcrete(a...) {
			return strings.IndexRune(N(a[0]), a[1].(int32))
		}
		return fr.i.indexOf(B(a[0]), fr.i.runeToBytes(a[1]), 0)
	})
	ext("strings.LastIndex", func(fr *frame, a []value) value {
		if allConcrete(a...) {
			return strings.LastIndex(N(a[0]), N(a[1]))
		}
		return fr.i.lastIndexOf(B(a[0]), B(a[1]))
	})
	ext("strings.LastIndexByte", func(fr *frame, a []value) value {
		if allConcrete(a...) {
			return strings.LastIndexByte(N(a[0]), a[1].(byte))
		}
		return fr.i.lastIndexOf(B(a[0]), []value{a[1]})
	})
	ext("strings.IndexAny", func(fr *frame, a []value) value {
		if allConcrete(a...) {
			return strings.IndexAny(N(a[0]), N(a[1]))
		}
		s, set := B(a[0]), B(a[1])
		fr.i.requireASCII(s)
		for k := range s {
			if fr.i.ps.branch(fr.i.byteInSet(s[k], set)) {
				return k
			}
		}
		return -1
	})
	ext("strings.Contains", func(fr *frame, a []value) value {
		if allConcrete(a...) {
			return strings.Contains(N(a[0]), N(a[1]))
		}
		i := fr.i
		s, sub := B(a[0]), B(a[1])
		r := i.ps.ts.constBool(false)
		for k := 0; k+len(sub) <= len(s); k++ {
			r = i.ps.ts.or(r, i.matchAt(s, k, sub))
		}
		return mkScalar(r, types.Bool)
	})
	ext("strings.ContainsRune", func(fr *frame, a []value) value {
		if allConcrete(a...) {
			return strings.ContainsRune(N(a[0]), a[1].(int32))
		}
		i := fr.i
		s, sub := B(a[0]), i.runeToBytes(a[1])
		r := i.ps.ts.constBool(false)
		for k := 0; k+len(sub) <= len(s); k++ {
			r = i.ps.ts.or(r, i.matchAt(s, k, sub))
		}
		return mkScalar(r, types.Bool)
	})
	ext("strings.ContainsAny", func(fr *frame, a []value) value {
		if allConcrete(a...) {
			return strings.ContainsAny(N(a[0]), N(a[1]))
		}
		i := fr.i
		s, set := B(a[0]), B(a[1])
		r := i.ps.ts.constBool(false)
		for k := range s {
			r = i.ps.ts.or(r, i.byteInSet(s[k], set))
		}
		return mkScalar(r, types.Bool)
	})
	ext("strings.HasPrefix", func(fr *frame, a []value) value {
		if allConcrete(a...) {
			return strings.HasPrefix(N(a[0]), N(a[1]))
		}
		s, p := B(a[0]), B(a[1])
		if len(p) > len(s) {
			return false
		}
		return mkScalar(fr.i.matchAt(s, 0, p), types.Bool)
	})
	ext("strings.HasSuffix", func(fr *frame, a []value) value {
		if allConcrete(a...) {
			return strings.HasSuffix(N(a[0]), N(a[1]))
		}
		s, p := B(a[0]), B(a[1])
		if len(p) > len(s) {
			return false
		}
		return mkScalar(fr.i.matchAt(s, len(s)-len(p), p), types.Bool)
	})
	ext("strings.Cut", func(fr *frame, a []value) value {
		if allConcrete(a...) {
			x, y, ok := strings.Cut(N(a[0]), N(a[1]))
			return tuple{x, y, ok}
		}
		s, sep := B(a[0]), B(a[1])
		k := fr.i.indexOf(s, sep, 0)
		if k < 0 {
			return tuple{a[0], "", false}
		}
		return tuple{mkStr(s[:k:k]), mkStr(s[k+len(sep):]), true}
	})
	ext("strings.CutPrefix", func(fr *frame, a []value) value {
		s, p := B(a[0]), B(a[1])
		if len(p) <= len(s) && fr.i.ps.branch(fr.i.matchAt(s, 0, p)) {
			return tuple{mkStr(s[len(p):]), true}
		}
		return tuple{a[0], false}
	})
	ext("strings.CutSuffix", func(fr *frame, a []value) value {
		s, p := B(a[0]), B(a[1])
		if len(p) <= len(s) && fr.i.ps.branch(fr.i.matchAt(s, len(s)-len(p), p)) {
			return tuple{mkStr(s[: len(s)-len(p) : len(s)-len(p)]), true}
		}
		return tuple{a[0], false}
	})
	ext("strings.Split", func(fr *frame, a []value) value {
		if allConcrete(a...) {
			return valStrs(strings.Split(N(a[0]), N(a[1])))
		}
		return mkStrList(fr.i.splitN(B(a[0]), B(a[1]), -1))
	})
	ext("strings.SplitN", func(fr *frame, a []value) value {
		n := int(fr.i.concIntVal(a[2]))
		if allConcrete(a[0], a[1]) {
			return valStrs(strings.SplitN(N(a[0]), N(a[1]), n))
		}
		p := fr.i.splitN(B(a[0]), B(a[1]), n)
		if p == nil {
			return []value(nil)
		}
		return mkStrList(p)
	})
	ext("strings.Fields", func(fr *frame, a []value) value {
		if allConcrete(a...) {
			return valStrs(strings.Fields(N(a[0])))
		}
		return mkStrList(fr.i.fields(B(a[0])))
	})
	ext("strings.Join", func(fr *frame, a []value) value {
		l := a[0].([]value)
		sep := B(a[1])
		var out []value
		for k, s := range l {
			if k > 0 {
				out = append(out, sep...)
			}
			out = append(out, B(s)...)
		}
		return mkStr(out)
	})
	ext("strings.Repeat", func(fr *frame, a []value) value {
		n := int(fr.i.concIntVal(a[1]))
		if n < 0 {
			panic("strings: negative Repeat count")
		}
		var out []value
		for k := 0; k < n; k++ {
			out = append(out, B(a[0])...)
		}
		return mkStr(out)
	})
	ext("strings.TrimSpace", func(fr *frame, a []value) value {
		if allConcrete(a...) {
			return strings.TrimSpace(N(a[0]))
		}
		i := fr.i
		s := B(a[0])
		i.requireASCII(s)
		x, y := 0, len(s)
		for x < y && i.ps.branch(i.isSpaceTerm(s[x])) {
			x++
		}
		for y > x && i.ps.branch(i.isSpaceTerm(s[y-1])) {
			y--
		}
		return mkStr(s[x:y:y])
	})
	trim := func(left, right bool) externalFn {
		return func(fr *frame, a []value) value {
			if allConcrete(a...) {
				switch {
				case left && right:
					return strings.Trim(N(a[0]), N(a[1]))
				case left:
					return strings.TrimLeft(N(a[0]), N(a[1]))
				default:
					return strings.TrimRight(N(a[0]), N(a[1]))
				}
			}
			s := B(a[0])
			fr.i.requireASCII(s)
			r := fr.i.trimSet(s, B(a[1]), left, right)
			return mkStr(r[:len(r):len(r)])
		}
	}
	ext("strings.Trim", trim(true, true))
	ext("strings.TrimLeft", trim(true, false))
	ext("strings.TrimRight", trim(false, true))
	ext("strings.TrimPrefix", func(fr *frame, a []value) value {
		if allConcrete(a...) {
			return strings.TrimPrefix(N(a[0]), N(a[1]))
		}
		s, p := B(a[0]), B(a[1])
		if len(p) <= len(s) && fr.i.ps.branch(fr.i.matchAt(s, 0, p)) {
			return mkStr(s[len(p):])
		}
		return a[0]
	})
	ext("strings.TrimSuffix", func(fr *frame, a []value) value {
		if allConcrete(a...) {
			return strings.TrimSuffix(N(a[0]), N(a[1]))
		}
		s, p := B(a[0]), B(a[1])
		if len(p) <= len(s) && fr.i.ps.branch(fr.i.matchAt(s, len(s)-len(p), p)) {
			return mkStr(s[: len(s)-len(p) : len(s)-len(p)])
		}
		return a[0]
	})
	ext("strings.TrimLeftFunc", func(fr *frame, a []value) value {
		r := fr.i.trimLeftFunc(fr, B(a[0]), a[1])
		return mkStr(r)
	})
	ext("strings.TrimRightFunc", func(fr *frame, a []value) value {
		r := fr.i.trimRightFunc(fr, B(a[0]), a[1])
		return mkStr(r[:len(r):len(r)])
	})
	ext("strings.TrimFunc", func(fr *frame, a []value) value {
		r := fr.i.trimRightFunc(fr, fr.i.trimLeftFunc(fr, B(a[0]), a[1]), a[1])
		return mkStr(r[:len(r):len(r)])
	})
	ext("strings.IndexFunc", func(fr *frame, a []value) value {
		s := B(a[0])
		fr.i.requireASCII(s)
		for k := 0; k < len(s); {
			r, n := fr.i.runeAt(s, k)
			if fr.i.callPred(fr, a[1], r) {
				return k
			}
			k += n
		}
		return -1
	})
	ext("strings.ContainsFunc", func(fr *frame, a []value) value {
		s := B(a[0])
		fr.i.requireASCII(s)
		for k := 0; k < len(s); {
			r, n := fr.i.runeAt(s, k)
			if fr.i.callPred(fr, a[1], r) {
				return true
			}
			k += n
		}
		return false
	})
	ext("strings.Map", func(fr *frame, a []value) value {
		s := B(a[1])
		fr.i.requireASCII(s)
		var out []value
		for k := 0; k < len(s); {
			r, n := fr.i.runeAt(s, k)
			m := call(fr.i, fr, token.NoPos, a[0], []value{r})
			if ms, ok := m.(sym); ok {
				neg := fr.i.ps.ts.cmp("bvslt", ms.t, fr.i.ps.ts.constBV(32, 0))
				if !fr.i.ps.branch(neg) {
					out = append(out, fr.i.runeToBytes(m)...)
				}
			} else if m.(int32) >= 0 {
				out = append(out, fr.i.runeToBytes(m)...)
			}
			k += n
		}
		return mkStr(out)
	})
	ext("strings.Replace", func(fr *frame, a []value) value {
		n := int(fr.i.concIntVal(a[3]))
		if allConcrete(a[0], a[1], a[2]) {
			return strings.Replace(N(a[0]), N(a[1]), N(a[2]), n)
		}
		return mkStr(fr.i.replaceStr(B(a[0]), B(a[1]), B(a[2]), n))
	})
	ext("strings.ReplaceAll", func(fr *frame, a []value) value {
		if allConcrete(a...) {
			return strings.ReplaceAll(N(a[0]), N(a[1]), N(a[2]))
		}
		return mkStr(fr.i.replaceStr(B(a[0]), B(a[1]), B(a[2]), -1))
	})
	ext("strings.ToLower", func(fr *frame, a []value) value {
		if allConcrete(a...) {
			return strings.ToLower(N(a[0]))
		}
		s := B(a[0])
		fr.i.requireASCII(s)
		out := make([]value, len(s))
		conc := true
		for k, b := range s {
			if c, ok := b.(uint8); ok && c >= 0x80 {
				conc = false
			}
			out[k] = fr.i.lowerByte(b)
		}
		if !conc {
			panic(pathAbort{"outside bound: ToLower over mixed symbolic/non-ASCII string"})
		}
		return mkStr(out)
	})
	ext("strings.ToUpper", func(fr *frame, a []value) value {
		if allConcrete(a...) {
			return strings.ToUpper(N(a[0]))
		}
		s := B(a[0])
		fr.i.requireASCII(s)
		out := make([]value, len(s))
		for k, b := range s {
			if c, ok := b.(uint8); ok && c >= 0x80 {
				panic(pathAbort{"outside bound: ToUpper over mixed symbolic/non-ASCII string"})
			}
			out[k] = fr.i.upperByte(b)
		}
		return mkStr(out)
	})
	ext("strings.EqualFold", func(fr *frame, a []value) value {
		if allConcrete(a...) {
			return strings.EqualFold(N(a[0]), N(a[1]))
		}
		i := fr.i
		s, t := B(a[0]), B(a[1])
		i.requireASCII(s)
		i.requireASCII(t)
		if len(s) != len(t) {
			// non-ASCII folding can change lengths only for concrete non-ASCII parts: outside bound
			return false
		}
		r := i.ps.ts.constBool(true)
		for k := range s {
			r = i.ps.ts.and(r, i.ps.ts.eq(i.termOf(i.lowerByte(s[k])), i.termOf(i.lowerByte(t[k]))))
		}
		return mkScalar(r, types.Bool)
	})
	ext("strings.Count", func(fr *frame, a []value) value {
		if allConcrete(a...) {
			return strings.Count(N(a[0]), N(a[1]))
		}
		s, sub := B(a[0]), B(a[1])
		if len(sub) == 0 {
			fr.i.requireASCII(s)
			return len(s) + 1
		}
		n, from := 0, 0
		for {
			k := fr.i.indexOf(s, sub, from)
			if k < 0 {
				return n
			}
			n++
			from = k + len(sub)
		}
	})
	ext("strings.Compare", func(fr *frame, a []value) value {
		if fr.i.ps.branch(fr.i.strEqTerm(a[0], a[1])) {
			return 0
		}
		if fr.i.ps.branch(fr.i.strLessTerm(a[0], a[1], false)) {
			return -1
		}
		return 1
	})
	ext("strings.Title", func(fr *frame, a []value) value { return strings.Title(fr.i.concStr(a[0])) })

	// strings.Builder: struct{ addr *Builder; buf []byte }
	bufOf := func(p value) *value {
		st := (*(p.(*value))).(structure)
		return &st[1]
	}
	ext("(*strings.Builder).WriteString", func(fr *frame, a []value) value {
		b := bufOf(a[0])
		cur, _ := (*b).([]value)
		*b = append(cur, B(a[1])...)
		return tuple{strLen(a[1]), iface{}}
	})
	ext("(*strings.Builder).WriteByte", func(fr *frame, a []value) value {
		b := bufOf(a[0])
		cur, _ := (*b).([]value)
		*b = append(cur, a[1])
		return iface{}
	})
	ext("(*strings.Builder).WriteRune", func(fr *frame, a []value) value {
		b := bufOf(a[0])
		cur, _ := (*b).([]value)
		rb := fr.i.runeToBytes(a[1])
		*b = append(cur, rb...)
		return tuple{len(rb), iface{}}
	})
	ext("(*strings.Builder).Write", func(fr *frame, a []value) value {
		b := bufOf(a[0])
		cur, _ := (*b).([]value)
		*b = append(cur, a[1].([]value)...)
		return tuple{len(a[1].([]value)), iface{}}
	})
	ext("(*strings.Builder).String", func(fr *frame, a []value) value {
		cur, _ := (*bufOf(a[0])).([]value)
		return bytesToStr(cur)
	})
	ext("(*strings.Builder).Len", func(fr *frame, a []value) value {
		cur, _ := (*bufOf(a[0])).([]value)
		return len(cur)
	})
	ext("(*strings.Builder).Reset", func(fr *frame, a []value) value { *bufOf(a[0]) = []value(nil); return nil })
	ext("(*strings.Builder).Grow", func(fr *frame, a []value) value { return nil })
	ext("(*strings.Builder).Cap", func(fr *frame, a []value) value {
		cur, _ := (*bufOf(a[0])).([]value)
		return cap(cur)
	})

	// unicode predicates over possibly symbolic runes
	upred := func(name string, native func(rune) bool, symb func(i *interpreter, t *term) *term) {
		ext(name, func(fr *frame, a []value) value {
			if x, ok := a[0].(sym); ok {
				i := fr.i
				ts := i.ps.ts
				if i.ps.branch(ts.cmp("bvult", x.t, ts.constBV(x.t.srt, 0x80))) {
					return mkScalar(symb(i, x.t), types.Bool)
				}
				v := i.ps.concInt(x.t)
				return native(rune(signExt(v, x.t.srt)))
			}
			return native(a[0].(int32))
		})
	}
	upred("unicode.IsSpace", unicode.IsSpace, func(i *interpreter, t *term) *term {
		ts := i.ps.ts
		return ts.or(ts.eq(t, ts.constBV(t.srt, ' ')), i.rangeTerm(t, 9, 13))
	})
	upred("unicode.IsDigit", unicode.IsDigit, func(i *interpreter, t *term) *term { return i.rangeTerm(t, '0', '9') })
	upred("unicode.IsNumber", unicode.IsNumber, func(i *interpreter, t *term) *term { return i.rangeTerm(t, '0', '9') })
	upred("unicode.IsLetter", unicode.IsLetter, func(i *interpreter, t *term) *term {
		return i.ps.ts.or(i.rangeTerm(t, 'a', 'z'), i.rangeTerm(t, 'A', 'Z'))
	})
	upred("unicode.IsUpper", unicode.IsUpper, func(i *interpreter, t *term) *term { return i.rangeTerm(t, 'A', 'Z') })
	upred("unicode.IsLower", unicode.IsLower, func(i *interpreter, t *term) *term { return i.rangeTerm(t, 'a', 'z') })
	upred("unicode.IsControl", unicode.IsControl, func(i *interpreter, t *term) *term {
		return i.ps.ts.or(i.rangeTerm(t, 0, 0x1f), i.ps.ts.eq(t, i.ps.ts.constBV(t.srt, 0x7f)))
	})
	upred("unicode.IsPrint", unicode.IsPrint, func(i *interpreter, t *term) *term { return i.rangeTerm(t, 0x20, 0x7e) })
	upred("unicode.IsPunct", unicode.IsPunct, func(i *interpreter, t *term) *term {
		ts := i.ps.ts
		r := ts.constBool(false)
		for c := rune(0); c < 0x80; c++ {
			if unicode.IsPunct(c) {
				r = ts.or(r, ts.eq(t, ts.constBV(t.srt, uint64(c))))
			}
		}
		return r
	})
	ext("unicode.ToLower", func(fr *frame, a []value) value {
		if x, ok := a[0].(sym); ok {
			i := fr.i
			ts := i.ps.ts
			if i.ps.branch(ts.cmp("bvult", x.t, ts.constBV(x.t.srt, 0x80))) {
				return mkScalar(ts.ite(i.rangeTerm(x.t, 'A', 'Z'), ts.bin("bvadd", x.t, ts.constBV(x.t.srt, 32)), x.t), x.k)
			}
			return unicode.ToLower(rune(signExt(i.ps.concInt(x.t), x.t.srt)))
		}
		return unicode.ToLower(a[0].(int32))
	})
	ext("unicode.ToUpper", func(fr *frame, a []value) value {
		if x, ok := a[0].(sym); ok {
			i := fr.i
			ts := i.ps.ts
			if i.ps.branch(ts.cmp("bvult", x.t, ts.constBV(x.t.srt, 0x80))) {
				return mkScalar(ts.ite(i.rangeTerm(x.t, 'a', 'z'), ts.bin("bvsub", x.t, ts.constBV(x.t.srt, 32)), x.t), x.k)
			}
			return unicode.ToUpper(rune(signExt(i.ps.concInt(x.t), x.t.srt)))
		}
		return unicode.ToUpper(a[0].(int32))
	})

	// utf8
	ext("unicode/utf8.DecodeRuneInString", func(fr *frame, a []value) value {
		if s, ok := a[0].(string); ok {
			r, n := utf8.DecodeRuneInString(s)
			return tuple{r, n}
		}
		s := B(a[0])
		r, n := fr.i.runeAt(s, 0)
		return tuple{r, n}
	})
	ext("unicode/utf8.DecodeLastRuneInString", func(fr *frame, a []value) value {
		if s, ok := a[0].(string); ok {
			r, n := utf8.DecodeLastRuneInString(s)
			return tuple{r, n}
		}
		s := B(a[0])
		if len(s) == 0 {
			return tuple{int32(utf8.RuneError), 0}
		}
		r, n := fr.i.lastRune(s)
		return tuple{r, n}
	})
	ext("unicode/utf8.DecodeRune", func(fr *frame, a []value) value {
		s := a[0].([]value)
		if len(s) == 0 {
			return tuple{int32(utf8.RuneError), 0}
		}
		r, n := fr.i.runeAt(s, 0)
		return tuple{r, n}
	})
	ext("unicode/utf8.RuneCountInString", func(fr *frame, a []value) value {
		if s, ok := a[0].(string); ok {
			return utf8.RuneCountInString(s)
		}
		s := B(a[0])
		fr.i.requireASCII(s)
		n := 0
		for k := 0; k < len(s); {
			_, w := fr.i.runeAt(s, k)
			k += w
			n++
		}
		return n
	})
	ext("unicode/utf8.ValidString", func(fr *frame, a []value) value {
		if s, ok := a[0].(string); ok {
			return utf8.ValidString(s)
		}
		fr.i.requireASCII(B(a[0]))
		return true
	})
	ext("unicode/utf8.RuneLen", func(fr *frame, a []value) value {
		if x, ok := a[0].(sym); ok {
			return len(fr.i.runeToBytes(x))
		}
		return utf8.RuneLen(a[0].(int32))
	})
	ext("unicode/utf8.AppendRune", func(fr *frame, a []value) value {
		return append(a[0].([]value), fr.i.runeToBytes(a[1])...)
	})
	ext("unicode/utf8.EncodeRune", func(fr *frame, a []value) value {
		rb := fr.i.runeToBytes(a[1])
		copy(a[0].([]value), rb)
		return len(rb)
	})
	ext("unicode/utf8.ValidRune", func(fr *frame, a []value) value {
		if _, ok := a[0].(sym); ok {
			return true
		}
		return utf8.ValidRune(a[0].(int32))
	})
	_ = fmt.Sprint
}
