package interp

// YAML text layer stub (DESIGN §5-A): a virtual compose file is registered by the
// harness as a list of already-built document trees (vrtYamlFile); yaml.NewDecoder /
// Decoder.Decode deliver those trees. Tags (!reset, !override) and aliases are not
// produced here.

import (
	"go/token"
	"fmt"
	"go/types"
	"strconv"
	"strings"
)

type yamlDec struct {
	docs []value
	pos  int
	bad  bool
}

const yamlMarker = "#vrt-yaml-docs:"

func init() {
	V := func(name string, f externalFn) { vrtIntrinsics[name] = f }
	ext := func(name string, f externalFn) { externals[name] = f }
	V("vrtYamlFile", func(fr *frame, a []value) value {
		fs := fr.i.ps.vfs()
		id := len(fs.yamlDocs)
		docs := a[1].([]value)
		fs.yamlDocs = append(fs.yamlDocs, docs)
		p := fr.i.concStr(a[0])
		fs.files[fs.real(cleanPath(p))] = vfile{content: fmt.Sprintf("%s%d\n", yamlMarker, id)}
		return nil
	})
	ext("gopkg.in/yaml.v3.NewDecoder", func(fr *frame, a []value) value {
		r := a[0].(iface)
		// read everything from the reader
		res := externals["io.ReadAll"](fr, []value{r}).(tuple)
		b := res[0].([]value)
		s, ok := mkStr(b).(string)
		d := &yamlDec{}
		if ok && strings.HasPrefix(s, yamlMarker) {
			id, _ := strconv.Atoi(strings.TrimSpace(strings.TrimPrefix(s, yamlMarker)))
			fs := fr.i.ps.vfs()
			if id < len(fs.yamlDocs) {
				d.docs = fs.yamlDocs[id]
			}
		} else if ok && strings.TrimSpace(s) == "" {
			// empty file: no documents
		} else {
			d.bad = true
		}
		v := value(d)
		return &v
	})
	ext("(*gopkg.in/yaml.v3.Decoder).Decode", func(fr *frame, a []value) value {
		d := (*(a[0].(*value))).(*yamlDec)
		if d.bad {
			panic(pathAbort{"unsupported: YAML text (only vrtYamlFile documents can be decoded)"})
		}
		if d.pos >= len(d.docs) {
			eof := fr.i.prog.ImportedPackage("io").Var("EOF")
			return *fr.i.globalCell(eof)
		}
		doc := d.docs[d.pos]
		if _, isNode := unwrapAny(doc).(*value); !isNode {
			doc = snapshotValue(doc, 0)
		}
		d.pos++
		target := a[1].(iface)
		// a document registered as a *yaml.Node (vrtYamlNodeFile): hand it to the target's own
		// UnmarshalYAML (the real code, e.g. ResetProcessor) or decode it generically
		if node, ok := unwrapAny(doc).(*value); ok && node != nil {
			if m := fr.i.methodByName(target.t, "UnmarshalYAML"); m != nil {
				r := call(fr.i, fr, 0, m, []value{target.v, node})
				return r
			}
			v, err := fr.i.decodeYamlNode(fr, node, 0)
			if err != "" {
				return fr.i.mkError(fr, err)
			}
			if pt, ok := target.t.(*types.Pointer); ok {
				if _, ok := pt.Elem().Underlying().(*types.Interface); ok {
					*(target.v.(*value)) = asAny(v)
					return iface{}
				}
				if _, ok := pt.Elem().Underlying().(*types.Struct); ok {
					doc = v
				}
			}
		}
		// *ResetProcessor: store into *p.target ; *interface{}: store directly
		if pt, ok := target.t.(*types.Pointer); ok {
			if n, ok := pt.Elem().(*types.Named); ok && n.Obj().Name() == "ResetProcessor" {
				st := (*(target.v.(*value))).(structure)
				u := n.Underlying().(*types.Struct)
				for k := 0; k < u.NumFields(); k++ {
					if u.Field(k).Name() == "target" {
						cell := st[k].(iface).v.(*value)
						*cell = asAny(doc)
						return iface{}
					}
				}
			}
			if _, ok := pt.Elem().Underlying().(*types.Interface); ok {
				*(target.v.(*value)) = asAny(doc)
				return iface{}
			}
			if _, ok := pt.Elem().Underlying().(*types.Struct); ok {
				// decoding into a plain struct (e.g. the duplicate parse for `name`): bind by yaml tags;
				// a type mismatch is a decode error, as with the real decoder
				var res value = iface{}
				func() {
					defer func() {
						if r := recover(); r != nil {
							if be, ok := r.(bindErr); ok {
								res = fr.i.mkError(fr, "yaml: unmarshal errors: "+be.msg)
								return
							}
							panic(r)
						}
					}()
					fr.i.bindInit = load(pt.Elem(), target.v.(*value))
					v := fr.i.bind(fr, doc, pt.Elem(), "")
					fr.i.bindInit = nil
					store(pt.Elem(), target.v.(*value), v)
				}()
				return res
			}
		}
		panic(pathAbort{"unsupported: yaml Decode into " + target.t.String()})
	})
}

func init() {
	// yaml.Unmarshal(b, out): the first document of a vrtYamlFile stream (as the real function does); other text is
	// handed to the real yaml.Unmarshal
	externals["gopkg.in/yaml.v3.Unmarshal"] = func(fr *frame, a []value) value {
		b := a[0].([]value)
		s, ok := mkStr(b).(string)
		if !ok || !strings.HasPrefix(s, yamlMarker) {
			fn := fr.i.prog.ImportedPackage("gopkg.in/yaml.v3").Func("Unmarshal")
			return callSSA(fr.i, fr, token.NoPos, fn, a, nil)
		}
		id, _ := strconv.Atoi(strings.TrimSpace(strings.TrimPrefix(s, yamlMarker)))
		d := &yamlDec{}
		fs := fr.i.ps.vfs()
		if id < len(fs.yamlDocs) {
			d.docs = fs.yamlDocs[id]
		}
		if len(d.docs) == 0 {
			return iface{}
		}
		v := value(d)
		return externals["(*gopkg.in/yaml.v3.Decoder).Decode"](fr, []value{&v, a[1]})
	}
}

func cleanPath(p string) string {
	for strings.Contains(p, "//") {
		p = strings.ReplaceAll(p, "//", "/")
	}
	if len(p) > 1 && strings.HasSuffix(p, "/") {
		p = p[:len(p)-1]
	}
	return p
}


// yaml.Node field access by name (the struct layout is read from the program's types)
func (i *interpreter) nodeField(n *value, name string) value {
	st := (*n).(structure)
	nt := i.prog.ImportedPackage("gopkg.in/yaml.v3").Type("Node").Type().Underlying().(*types.Struct)
	for k := 0; k < nt.NumFields(); k++ {
		if nt.Field(k).Name() == name {
			return st[k]
		}
	}
	return nil
}

// decodeYamlNode converts a yaml.Node tree into plain Go values like (*yaml.Node).Decode(&any).
func (i *interpreter) decodeYamlNode(fr *frame, n *value, depth int) (value, string) {
	if n == nil {
		return nil, ""
	}
	if depth > 100 {
		return nil, "yaml: document nesting too deep or cyclic"
	}
	kind := asInt64(i.nodeField(n, "Kind"))
	tag, _ := i.nodeField(n, "Tag").(string)
	switch kind {
	case 1: // DocumentNode
		c := i.nodeField(n, "Content").([]value)
		if len(c) == 0 {
			return nil, ""
		}
		return i.decodeYamlNode(fr, c[0].(*value), depth+1)
	case 16: // AliasNode
		a, _ := i.nodeField(n, "Alias").(*value)
		return i.decodeYamlNode(fr, a, depth+1)
	case 2: // SequenceNode
		out := []value{}
		for _, c := range i.nodeField(n, "Content").([]value) {
			v, e := i.decodeYamlNode(fr, c.(*value), depth+1)
			if e != "" {
				return nil, e
			}
			out = append(out, asAny(v))
		}
		return out, ""
	case 4: // MappingNode
		m := makeMap(types.Typ[types.String], 0).(*omap)
		c := i.nodeField(n, "Content").([]value)
		// merge keys first (lower priority), then own keys
		for k := 0; k+1 < len(c); k += 2 {
			key := i.nodeField(c[k].(*value), "Value")
			if ks, ok := key.(string); ok && ks == "<<" {
				v, e := i.decodeYamlNode(fr, c[k+1].(*value), depth+1)
				if e != "" {
					return nil, e
				}
				if mm, ok := v.(*omap); ok {
					for _, en := range mm.live() {
						m.insert(i, en.key, en.val)
					}
				}
			}
		}
		for k := 0; k+1 < len(c); k += 2 {
			key := i.nodeField(c[k].(*value), "Value")
			if ks, ok := key.(string); ok && ks == "<<" {
				continue
			}
			v, e := i.decodeYamlNode(fr, c[k+1].(*value), depth+1)
			if e != "" {
				return nil, e
			}
			m.insert(i, key, asAny(v))
		}
		return m, ""
	case 8: // ScalarNode
		val := i.nodeField(n, "Value")
		switch tag {
		case "!!null":
			return nil, ""
		case "!!bool":
			return i.concStr(val) == "true", ""
		case "!!int":
			var x int
			fmt.Sscanf(i.concStr(val), "%d", &x)
			return x, ""
		case "!!float":
			var f float64
			fmt.Sscanf(i.concStr(val), "%g", &f)
			return f, ""
		}
		return val, ""
	}
	return nil, ""
}

func init() {
	externals["(*gopkg.in/yaml.v3.Node).Decode"] = func(fr *frame, a []value) value {
		n := a[0].(*value)
		if n == nil {
			// the real method dereferences its receiver
			panic(targetPanic{iface{t: types.Typ[types.String], v: "runtime error: invalid memory address or nil pointer dereference"}})
		}
		v, err := fr.i.decodeYamlNode(fr, n, 0)
		if err != "" {
			return fr.i.mkError(fr, err)
		}
		target := a[1].(iface)
		if pt, ok := target.t.(*types.Pointer); ok {
			if _, ok := pt.Elem().Underlying().(*types.Interface); ok {
				*(target.v.(*value)) = asAny(v)
				return iface{}
			}
		}
		panic(pathAbort{"unsupported: yaml.Node.Decode into " + target.t.String()})
	}
	vrtIntrinsics["vrtYamlNodeFile"] = func(fr *frame, a []value) value {
		fs := fr.i.ps.vfs()
		id := len(fs.yamlDocs)
		var docs []value
		for _, d := range a[1].([]value) {
			docs = append(docs, d) // *yaml.Node pointers
		}
		fs.yamlDocs = append(fs.yamlDocs, docs)
		p := fr.i.concStr(a[0])
		fs.files[fs.real(cleanPath(p))] = vfile{content: fmt.Sprintf("%s%d\n", yamlMarker, id)}
		return nil
	}
}
