package interp

// YAML text layer stub (DESIGN §5-A): a virtual compose file is registered by the
// harness as a list of already-built document trees (vrtYamlFile); yaml.NewDecoder /
// Decoder.Decode deliver those trees. Tags (!reset, !override) and aliases are not
// produced here.

import (
	"fmt"
	"go/types"
	"strconv"
	"strings"
)

type yamlDec struct {
	docs []value
	pos  int
	bad  bool
}

const yamlMarker = "#vrt-yaml-docs:"

func init() {
	V := func(name string, f externalFn) { vrtIntrinsics[name] = f }
	ext := func(name string, f externalFn) { externals[name] = f }
	V("vrtYamlFile", func(fr *frame, a []value) value {
		fs := fr.i.ps.vfs()
		id := len(fs.yamlDocs)
		docs := a[1].([]value)
		fs.yamlDocs = append(fs.yamlDocs, docs)
		p := fr.i.concStr(a[0])
		fs.files[cleanPath(p)] = vfile{content: fmt.Sprintf("%s%d\n", yamlMarker, id)}
		return nil
	})
	ext("gopkg.in/yaml.v3.NewDecoder", func(fr *frame, a []value) value {
		r := a[0].(iface)
		// read everything from the reader
		res := externals["io.ReadAll"](fr, []value{r}).(tuple)
		b := res[0].([]value)
		s, ok := mkStr(b).(string)
		d := &yamlDec{}
		if ok && strings.HasPrefix(s, yamlMarker) {
			id, _ := strconv.Atoi(strings.TrimSpace(strings.TrimPrefix(s, yamlMarker)))
			fs := fr.i.ps.vfs()
			if id < len(fs.yamlDocs) {
				d.docs = fs.yamlDocs[id]
			}
		} else if ok && strings.TrimSpace(s) == "" {
			// empty file: no documents
		} else {
			d.bad = true
		}
		v := value(d)
		return &v
	})
	ext("(*gopkg.in/yaml.v3.Decoder).Decode", func(fr *frame, a []value) value {
		d := (*(a[0].(*value))).(*yamlDec)
		if d.bad {
			panic(pathAbort{"unsupported: YAML text (only vrtYamlFile documents can be decoded)"})
		}
		if d.pos >= len(d.docs) {
			eof := fr.i.prog.ImportedPackage("io").Var("EOF")
			return *fr.i.globalCell(eof)
		}
		doc := snapshotValue(d.docs[d.pos], 0)
		d.pos++
		target := a[1].(iface)
		// *ResetProcessor: store into *p.target ; *interface{}: store directly
		if pt, ok := target.t.(*types.Pointer); ok {
			if n, ok := pt.Elem().(*types.Named); ok && n.Obj().Name() == "ResetProcessor" {
				st := (*(target.v.(*value))).(structure)
				u := n.Underlying().(*types.Struct)
				for k := 0; k < u.NumFields(); k++ {
					if u.Field(k).Name() == "target" {
						cell := st[k].(iface).v.(*value)
						*cell = asAny(doc)
						return iface{}
					}
				}
			}
			if _, ok := pt.Elem().Underlying().(*types.Interface); ok {
				*(target.v.(*value)) = asAny(doc)
				return iface{}
			}
			if _, ok := pt.Elem().Underlying().(*types.Struct); ok {
				// decoding into a plain struct (e.g. the duplicate parse for `name`): bind by yaml tags;
				// a type mismatch is a decode error, as with the real decoder
				var res value = iface{}
				func() {
					defer func() {
						if r := recover(); r != nil {
							if be, ok := r.(bindErr); ok {
								res = fr.i.mkError(fr, "yaml: unmarshal errors: "+be.msg)
								return
							}
							panic(r)
						}
					}()
					fr.i.bindInit = load(pt.Elem(), target.v.(*value))
					v := fr.i.bind(fr, doc, pt.Elem(), "")
					fr.i.bindInit = nil
					store(pt.Elem(), target.v.(*value), v)
				}()
				return res
			}
		}
		panic(pathAbort{"unsupported: yaml Decode into " + target.t.String()})
	})
}

func cleanPath(p string) string {
	for strings.Contains(p, "//") {
		p = strings.ReplaceAll(p, "//", "/")
	}
	if len(p) > 1 && strings.HasSuffix(p, "/") {
		p = p[:len(p)-1]
	}
	return p
}
