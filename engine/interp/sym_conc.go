package interp

// Concurrency layer: interpreted goroutines run one at a time under an engine
// scheduler.  Control changes only at scheduling points (go, channel operations,
// select, mutex/waitgroup/once operations, goroutine exit, vrtYield); the choice among
// enabled goroutines is a decision of the path, bounded by a preemption bound.

import (
	"fmt"
	"go/token"
	"go/types"
	"sync"

	"golang.org/x/tools/go/ssa"
)

type gthread struct {
	id      int
	wake    chan bool
	done    bool
	waiting func() bool
	name    string
	vc      []int
}

type scheduler struct {
	i          *interpreter
	threads    []*gthread
	cur        *gthread
	preempt    int
	maxPreempt int
	failure    interface{}
	failed     bool
	wg         sync.WaitGroup
	points     int
	maxPoints  int
	mus        map[*value]*smutex
	wgs        map[*value]*swg
	onces      map[*value]*sonce
	freeYield  bool // the current scheduling point is a voluntary yield: switching costs no preemption
	smaps      map[*value]*omap   // sync.Map contents
	pools      map[*value][]value // sync.Pool contents (LIFO, as seen by one P)
	running    int // visitor-style counters available to harnesses
}

type smutex struct {
	locked  bool
	readers int
	owner   int
	vc      []int
}
type swg struct {
	n  int
	vc []int
}
type sonce struct {
	done, running bool
	vc            []int
}

type schan struct {
	buf      []value
	cap      int
	closed   bool
	waiters  int // threads blocked receiving
	consumed int // number of items ever received (for unbuffered rendezvous)
	sent     int
	vc       []int
}

func newScheduler(i *interpreter) *scheduler {
	s := &scheduler{i: i, maxPreempt: 2, maxPoints: 100000,
		mus: map[*value]*smutex{}, wgs: map[*value]*swg{}, onces: map[*value]*sonce{}, smaps: map[*value]*omap{}, pools: map[*value][]value{}}
	main := &gthread{id: 0, wake: make(chan bool, 1), name: "main"}
	s.threads = []*gthread{main}
	s.cur = main
	return s
}

func (s *scheduler) enabled(t *gthread) bool {
	return !t.done && (t.waiting == nil || t.waiting())
}

// park blocks the calling real goroutine until its thread is scheduled again.
func (s *scheduler) park(t *gthread) {
	ok := <-t.wake
	if !ok {
		panic(pathAbort{"killed"})
	}
	s.cur = t
	if s.failed && t.id == 0 {
		f := s.failure
		s.failed = false
		panic(f)
	}
}

// yield is a scheduling point.  pred == nil: the current thread stays runnable.
func (s *scheduler) yield(pred func() bool) {
	cur := s.cur
	s.points++
	if s.points > s.maxPoints {
		panic(pathAbort{"scheduling point budget"})
	}
	cur.waiting = pred
	for {
		var cands []*gthread
		curOK := s.enabled(cur)
		if curOK {
			cands = append(cands, cur)
		}
		if !curOK || s.preempt < s.maxPreempt || s.freeYield {
			for _, t := range s.threads {
				if t != cur && s.enabled(t) {
					cands = append(cands, t)
				}
			}
		}
		if len(cands) == 0 {
			s.i.ps.violate("deadlock", s.i.siteString(), "all goroutines are blocked", s.i.modelOrNil())
			panic(pathAbort{"deadlock"})
		}
		k := s.i.ps.choose(len(cands))
		next := cands[k]
		if next == cur {
			cur.waiting = nil
			return
		}
		if curOK && !s.freeYield {
			s.preempt++
		}
		next.wake <- true
		s.park(cur)
		if s.enabled(cur) {
			cur.waiting = nil
			return
		}
		// woken although not enabled (should not happen): loop and reschedule
	}
}

// spawn starts an interpreted goroutine.
func (s *scheduler) spawn(fn value, args []value, pos token.Pos) {
	t := &gthread{id: len(s.threads), wake: make(chan bool, 1)}
	s.threads = append(s.threads, t)
	s.wg.Add(1)
	i := s.i
	go func() {
		defer s.wg.Done()
		defer func() {
			r := recover()
			t.done = true
			if pa, ok := r.(pathAbort); ok && pa.why == "killed" {
				return
			}
			if r != nil {
				// a panic in a goroutine crashes the program: deliver it to main
				s.failure, s.failed = r, true
				m := s.threads[0]
				if !m.done {
					m.waiting = nil
					m.wake <- true
				}
				return
			}
			// normal exit: hand the baton to someone else
			s.handOff(t)
		}()
		ok := <-t.wake
		if !ok {
			panic(pathAbort{"killed"})
		}
		s.cur = t
		call(i, nil, pos, fn, args)
	}()
	// the spawn itself is a scheduling point
	s.yield(nil)
}

// handOff is called by an exiting thread: pick the next thread to run.
func (s *scheduler) handOff(t *gthread) {
	var cands []*gthread
	for _, x := range s.threads {
		if x != t && s.enabled(x) {
			cands = append(cands, x)
		}
	}
	if len(cands) == 0 {
		// everybody else is blocked or done: if main is blocked this is a deadlock
		m := s.threads[0]
		if !m.done {
			s.failure, s.failed = pathAbort{"deadlock"}, true
			s.i.ps.violate("deadlock", "goroutine exit", "all goroutines are blocked", s.i.modelOrNil())
			m.wake <- true
		}
		return
	}
	defer func() {
		if r := recover(); r != nil {
			s.failure, s.failed = r, true
			m := s.threads[0]
			m.waiting = nil
			m.wake <- true
		}
	}()
	k := s.i.ps.choose(len(cands))
	cands[k].wake <- true
}

// shutdown kills all remaining threads at the end of a path.
func (s *scheduler) shutdown() {
	for _, t := range s.threads[1:] {
		if !t.done {
			select {
			case t.wake <- false:
			default:
			}
		}
	}
	s.wg.Wait()
}

func (i *interpreter) sched() *scheduler {
	if i.ps.sched == nil {
		i.ps.sched = newScheduler(i)
	}
	return i.ps.sched
}

func (i *interpreter) modelOrNil() map[int]uint64 {
	if i.ps.ensureModel() {
		return i.ps.model
	}
	return nil
}

// ---- channels

func (i *interpreter) chanSend(c *schan, v value) {
	s := i.sched()
	if c == nil {
		s.yield(func() bool { return false })
		return
	}
	s.yield(nil)
	if c.closed {
		panic("send on closed channel")
	}
	if c.cap > 0 {
		if len(c.buf) >= c.cap {
			s.yield(func() bool { return c.closed || len(c.buf) < c.cap })
			if c.closed {
				panic("send on closed channel")
			}
		}
		c.buf = append(c.buf, v)
		c.sent++
		return
	}
	c.buf = append(c.buf, v)
	c.sent++
	ticket := c.sent
	s.yield(func() bool { return c.consumed >= ticket || c.closed })
	if c.consumed < ticket && c.closed {
		panic("send on closed channel")
	}
}

func (i *interpreter) chanRecv(c *schan, elem types.Type) (value, bool) {
	s := i.sched()
	if c == nil {
		s.yield(func() bool { return false })
		return nil, false
	}
	s.yield(nil)
	if len(c.buf) == 0 && !c.closed {
		c.waiters++
		s.yield(func() bool { return len(c.buf) > 0 || c.closed })
		c.waiters--
	}
	if len(c.buf) > 0 {
		v := c.buf[0]
		c.buf = c.buf[1:]
		c.consumed++
		return v, true
	}
	return zero(elem), false
}

func (i *interpreter) chanClose(c *schan) {
	if c == nil {
		panic("close of nil channel")
	}
	if c.closed {
		panic("close of closed channel")
	}
	i.sched().yield(nil)
	c.closed = true
}

func (i *interpreter) doSelect(fr *frame, instr *ssa.Select) value {
	s := i.sched()
	type st struct {
		c    *schan
		send bool
		v    value
	}
	var states []st
	for _, state := range instr.States {
		c, _ := fr.get(state.Chan).(*schan)
		x := st{c: c, send: state.Dir == types.SendOnly}
		if state.Send != nil {
			x.v = fr.get(state.Send)
		}
		states = append(states, x)
	}
	ready := func() []int {
		var r []int
		for k, x := range states {
			if x.c == nil {
				continue
			}
			if x.send {
				if x.c.closed || (x.c.cap > 0 && len(x.c.buf) < x.c.cap) || (x.c.cap == 0 && x.c.waiters > 0 && len(x.c.buf) < x.c.waiters) {
					r = append(r, k)
				}
			} else if len(x.c.buf) > 0 || x.c.closed {
				r = append(r, k)
			}
		}
		return r
	}
	s.yield(nil)
	r := ready()
	if len(r) == 0 {
		if !instr.Blocking {
			res := tuple{-1, false}
			for _, st := range instr.States {
				if st.Dir == types.RecvOnly {
					res = append(res, zero(st.Chan.Type().Underlying().(*types.Chan).Elem()))
				}
			}
			return res
		}
		for _, x := range states {
			if x.c != nil && !x.send {
				x.c.waiters++
			}
		}
		s.yield(func() bool { return len(ready()) > 0 })
		for _, x := range states {
			if x.c != nil && !x.send {
				x.c.waiters--
			}
		}
		r = ready()
	}
	chosen := r[i.ps.choose(len(r))]
	x := states[chosen]
	var recvd value
	recvOK := false
	if x.send {
		if x.c.closed {
			panic("send on closed channel")
		}
		x.c.buf = append(x.c.buf, x.v)
		x.c.sent++
	} else {
		if len(x.c.buf) > 0 {
			recvd = x.c.buf[0]
			x.c.buf = x.c.buf[1:]
			x.c.consumed++
			recvOK = true
		}
	}
	res := tuple{chosen, recvOK}
	for k, st := range instr.States {
		if st.Dir == types.RecvOnly {
			if k == chosen && recvOK {
				res = append(res, recvd)
			} else {
				res = append(res, zero(st.Chan.Type().Underlying().(*types.Chan).Elem()))
			}
		}
	}
	return res
}

// ---- sync primitives (state keyed by the address of the primitive's first word)

func (s *scheduler) mu(p value) *smutex {
	k := p.(*value)
	if s.mus[k] == nil {
		s.mus[k] = &smutex{}
	}
	return s.mus[k]
}

func init() {
	ext := func(name string, f externalFn) { externals[name] = f }
	lock := func(fr *frame, a []value) value {
		s := fr.i.sched()
		m := s.mu(a[0])
		s.yield(nil)
		if m.locked || m.readers > 0 {
			s.yield(func() bool { return !m.locked && m.readers == 0 })
		}
		m.locked = true
		m.owner = s.cur.id
		fr.i.ps.lockDepth++
		return nil
	}
	unlock := func(fr *frame, a []value) value {
		s := fr.i.sched()
		m := s.mu(a[0])
		if !m.locked {
			panic("fatal error: sync: unlock of unlocked mutex")
		}
		m.locked = false
		fr.i.ps.lockDepth--
		return nil
	}
	trylock := func(fr *frame, a []value) value {
		s := fr.i.sched()
		m := s.mu(a[0])
		s.yield(nil)
		if m.locked || m.readers > 0 {
			return false
		}
		m.locked = true
		fr.i.ps.lockDepth++
		return true
	}
	ext("(*sync.Mutex).Lock", lock)
	ext("(*sync.Mutex).Unlock", unlock)
	ext("(*sync.Mutex).TryLock", trylock)
	ext("(*sync.RWMutex).Lock", lock)
	ext("(*sync.RWMutex).Unlock", unlock)
	ext("(*sync.RWMutex).RLock", func(fr *frame, a []value) value {
		s := fr.i.sched()
		m := s.mu(a[0])
		s.yield(nil)
		if m.locked {
			s.yield(func() bool { return !m.locked })
		}
		m.readers++
		fr.i.ps.lockDepth++
		return nil
	})
	ext("(*sync.RWMutex).RUnlock", func(fr *frame, a []value) value {
		s := fr.i.sched()
		m := s.mu(a[0])
		if m.readers <= 0 {
			panic("fatal error: sync: RUnlock of unlocked RWMutex")
		}
		m.readers--
		fr.i.ps.lockDepth--
		return nil
	})
	wgOf := func(fr *frame, p value) *swg {
		s := fr.i.sched()
		k := p.(*value)
		if s.wgs[k] == nil {
			s.wgs[k] = &swg{}
		}
		return s.wgs[k]
	}
	ext("(*sync.WaitGroup).Add", func(fr *frame, a []value) value {
		w := wgOf(fr, a[0])
		fr.i.sched().yield(nil)
		w.n += int(asInt64(a[1]))
		if w.n < 0 {
			panic("sync: negative WaitGroup counter")
		}
		return nil
	})
	ext("(*sync.WaitGroup).Done", func(fr *frame, a []value) value {
		w := wgOf(fr, a[0])
		fr.i.sched().yield(nil)
		w.n--
		if w.n < 0 {
			panic("sync: negative WaitGroup counter")
		}
		return nil
	})
	ext("(*sync.WaitGroup).Wait", func(fr *frame, a []value) value {
		w := wgOf(fr, a[0])
		s := fr.i.sched()
		s.yield(nil)
		if w.n > 0 {
			s.yield(func() bool { return w.n == 0 })
		}
		return nil
	})
	// sync.Map: contents kept per path in the scheduler; every operation is a scheduling point
	smap := func(fr *frame, p value) *omap {
		s := fr.i.sched()
		k := p.(*value)
		m := s.smaps[k]
		if m == nil {
			m = makeMap(anyType, 0).(*omap)
			s.smaps[k] = m
		}
		s.yield(nil)
		return m
	}
	ext("(*sync.Map).Load", func(fr *frame, a []value) value {
		if v, ok := smap(fr, a[0]).lookup(fr.i, a[1]); ok {
			return tuple{v, true}
		}
		return tuple{iface{}, false}
	})
	ext("(*sync.Map).Store", func(fr *frame, a []value) value {
		smap(fr, a[0]).insert(fr.i, a[1], a[2])
		return nil
	})
	ext("(*sync.Map).LoadOrStore", func(fr *frame, a []value) value {
		m := smap(fr, a[0])
		if v, ok := m.lookup(fr.i, a[1]); ok {
			return tuple{v, true}
		}
		m.insert(fr.i, a[1], a[2])
		return tuple{a[2], false}
	})
	ext("(*sync.Map).LoadAndDelete", func(fr *frame, a []value) value {
		m := smap(fr, a[0])
		if v, ok := m.lookup(fr.i, a[1]); ok {
			m.delete(fr.i, a[1])
			return tuple{v, true}
		}
		return tuple{iface{}, false}
	})
	ext("(*sync.Map).Delete", func(fr *frame, a []value) value {
		smap(fr, a[0]).delete(fr.i, a[1])
		return nil
	})
	ext("(*sync.Map).Swap", func(fr *frame, a []value) value {
		m := smap(fr, a[0])
		old, ok := m.lookup(fr.i, a[1])
		m.insert(fr.i, a[1], a[2])
		if !ok {
			return tuple{iface{}, false}
		}
		return tuple{old, true}
	})
	ext("(*sync.Map).Clear", func(fr *frame, a []value) value {
		s := fr.i.sched()
		delete(s.smaps, a[0].(*value))
		return nil
	})
	ext("(*sync.Map).Range", func(fr *frame, a []value) value {
		m := smap(fr, a[0])
		for _, e := range m.live() {
			r := call(fr.i, fr, token.NoPos, a[1], []value{e.key, e.val})
			if b, ok := r.(bool); ok && !b {
				break
			}
		}
		return nil
	})
	// sync.Pool: what one P sees - Put pushes, Get pops the last item, New is called when empty
	ext("(*sync.Pool).Get", func(fr *frame, a []value) value {
		s := fr.i.sched()
		k := a[0].(*value)
		s.yield(nil)
		if l := s.pools[k]; len(l) > 0 {
			v := l[len(l)-1]
			s.pools[k] = l[:len(l)-1]
			return v
		}
		st := (*k).(structure)
		newFn := st[len(st)-1]
		if newFn == nil {
			return iface{}
		}
		if c, ok := newFn.(*closure); ok && c == nil {
			return iface{}
		}
		return call(fr.i, fr, token.NoPos, newFn, nil)
	})
	ext("(*sync.Pool).Put", func(fr *frame, a []value) value {
		s := fr.i.sched()
		k := a[0].(*value)
		if x, ok := a[1].(iface); ok && x.t == nil {
			return nil
		}
		s.pools[k] = append(s.pools[k], a[1])
		return nil
	})
	ext("(*sync.Once).Do", func(fr *frame, a []value) value {
		s := fr.i.sched()
		k := a[0].(*value)
		o := s.onces[k]
		if o == nil {
			o = &sonce{}
			s.onces[k] = o
		}
		s.yield(nil)
		if o.done {
			return nil
		}
		if o.running {
			s.yield(func() bool { return o.done })
			return nil
		}
		o.running = true
		defer func() { o.done = true; o.running = false }()
		call(fr.i, fr, token.NoPos, a[1], nil)
		return nil
	})
	// sync/atomic typed values: struct{_ noCopy; v T} or similar; operate on the last field.
	lastField := func(p value) *value {
		st := (*(p.(*value))).(structure)
		return &st[len(st)-1]
	}
	for _, tn := range []string{"Int32", "Int64", "Uint32", "Uint64", "Bool", "Uintptr"} {
		tn := tn
		ext("(*sync/atomic."+tn+").Load", func(fr *frame, a []value) value {
			v := *lastField(a[0])
			if tn == "Bool" {
				return asInt64(v) != 0
			}
			return v
		})
		ext("(*sync/atomic."+tn+").Store", func(fr *frame, a []value) value {
			if tn == "Bool" {
				var x uint32
				if a[1].(bool) {
					x = 1
				}
				*lastField(a[0]) = x
				return nil
			}
			*lastField(a[0]) = a[1]
			return nil
		})
		ext("(*sync/atomic."+tn+").Add", func(fr *frame, a []value) value {
			p := lastField(a[0])
			*p = binop(fr.i, token.ADD, nil, *p, a[1])
			return *p
		})
		ext("(*sync/atomic."+tn+").CompareAndSwap", func(fr *frame, a []value) value {
			p := lastField(a[0])
			if tn == "Bool" {
				cur := asInt64(*p) != 0
				if cur == a[1].(bool) {
					var x uint32
					if a[2].(bool) {
						x = 1
					}
					*p = x
					return true
				}
				return false
			}
			if fr.i.concBool(binop(fr.i, token.EQL, types.Typ[types.Int64], *p, a[1])) {
				*p = a[2]
				return true
			}
			return false
		})
		ext("(*sync/atomic."+tn+").Swap", func(fr *frame, a []value) value {
			p := lastField(a[0])
			old := *p
			*p = a[1]
			return old
		})
	}
	for _, tn := range []string{"Int32", "Int64", "Uint32", "Uint64"} {
		ext("sync/atomic.Add"+tn, func(fr *frame, a []value) value {
			p := a[0].(*value)
			*p = binop(fr.i, token.ADD, nil, *p, a[1])
			return *p
		})
		ext("sync/atomic.Load"+tn, func(fr *frame, a []value) value { return *(a[0].(*value)) })
		ext("sync/atomic.Store"+tn, func(fr *frame, a []value) value { *(a[0].(*value)) = a[1]; return nil })
		ext("sync/atomic.CompareAndSwap"+tn, func(fr *frame, a []value) value {
			p := a[0].(*value)
			if fr.i.concBool(binop(fr.i, token.EQL, types.Typ[types.Int64], *p, a[1])) {
				*p = a[2]
				return true
			}
			return false
		})
	}
	// atomic.Value: struct{ v any }
	ext("(*sync/atomic.Value).Load", func(fr *frame, a []value) value { return *lastField(a[0]) })
	ext("(*sync/atomic.Value).Store", func(fr *frame, a []value) value { *lastField(a[0]) = a[1]; return nil })
	// atomic.Pointer[T]
	ext("runtime.Gosched", func(fr *frame, a []value) value { fr.i.sched().yield(nil); return nil })
	ext("runtime.Goexit", func(fr *frame, a []value) value { panic(fmt.Sprint("runtime.Goexit unsupported")) })
}
