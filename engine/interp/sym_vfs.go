package interp

// Virtual file system and process environment given by the harness (vrtFile, vrtDir,
// vrtEnv, vrtChdir). POSIX path semantics, no symlinks.

import (
	"fmt"
	"go/types"
	"os"
	"path"
	"sort"
	"strings"
)

// VRoot is the root directory under which harness files live (same string natively).
var VRoot = fmt.Sprintf("/tmp/vrt-%d", os.Getpid())

type vfsState struct {
	files map[string]vfile
	links map[string]string // directory symlinks: link path -> target path (vrtSymlink)
	env   map[string]value
	envK  []string
	cwd   string
	open  map[*value]*vopen
	yamlDocs [][]value
}
type vopen struct {
	name    string
	content []value
	pos     int
	closed  bool
}

func (ps *pathState) vfs() *vfsState {
	if ps.fsx == nil {
		ps.fsx = &vfsState{files: map[string]vfile{}, links: map[string]string{}, env: map[string]value{}, cwd: VRoot + "/w", open: map[*value]*vopen{}}
	}
	return ps.fsx
}

// stat: 0 missing, 1 file, 2 dir
// real replaces a leading symlinked directory by its target.
func (fs *vfsState) real(p string) string {
	p = path.Clean(p)
	for hops := 0; hops < 8; hops++ {
		done := true
		for l, t := range fs.links {
			if p == l || strings.HasPrefix(p, l+"/") {
				p = path.Clean(t + p[len(l):])
				done = false
				break
			}
		}
		if done {
			break
		}
	}
	return p
}

func (fs *vfsState) stat(p string) (int, vfile) {
	p = fs.real(p)
	if f, ok := fs.files[p]; ok {
		if f.dir {
			return 2, f
		}
		return 1, f
	}
	if p == "/" || p == "/tmp" || p == VRoot || p == fs.cwd || strings.HasPrefix(fs.cwd+"/", p+"/") {
		return 2, vfile{dir: true}
	}
	for k := range fs.files {
		if strings.HasPrefix(k, p+"/") {
			return 2, vfile{dir: true}
		}
	}
	return 0, vfile{}
}

func (i *interpreter) errnoErr(fr *frame, op, p string, errno uintptr) value {
	fsPkg := i.prog.ImportedPackage("io/fs")
	sysPkg := i.prog.ImportedPackage("syscall")
	pe := fsPkg.Type("PathError").Type()
	en := sysPkg.Type("Errno").Type()
	var s value = structure{op, p, iface{t: en, v: errno}}
	return iface{t: types.NewPointer(pe), v: &s}
}

func (i *interpreter) fileInfo(name string, dir bool, size int) value {
	osPkg := i.prog.ImportedPackage("os")
	ft := osPkg.Type("fileStat").Type()
	st := zero(ft).(structure)
	u := ft.Underlying().(*types.Struct)
	for k := 0; k < u.NumFields(); k++ {
		switch u.Field(k).Name() {
		case "name":
			st[k] = path.Base(name)
		case "size":
			st[k] = int64(size)
		case "mode":
			if dir {
				st[k] = uint32(1<<31 | 0o755)
			} else {
				st[k] = uint32(0o644)
			}
		}
	}
	var s value = st
	fi := i.prog.ImportedPackage("io/fs").Type("FileInfo").Type()
	_ = fi
	return iface{t: types.NewPointer(ft), v: &s}
}

func init() {
	V := func(name string, f externalFn) { vrtIntrinsics[name] = f }
	ext := func(name string, f externalFn) { externals[name] = f }
	V("vrtRoot", func(fr *frame, a []value) value { return VRoot })
	V("vrtFile", func(fr *frame, a []value) value {
		fs := fr.i.ps.vfs()
		fs.files[fs.real(fr.i.concStr(a[0]))] = vfile{content: a[1]}
		return nil
	})
	V("vrtSymlink", func(fr *frame, a []value) value {
		// vrtSymlink(target, link): link is a symbolic link to the directory target
		fs := fr.i.ps.vfs()
		fs.links[path.Clean(fr.i.concStr(a[1]))] = path.Clean(fr.i.concStr(a[0]))
		return nil
	})
	V("vrtDir", func(fr *frame, a []value) value {
		fs := fr.i.ps.vfs()
		fs.files[fs.real(fr.i.concStr(a[0]))] = vfile{dir: true}
		return nil
	})
	V("vrtEnv", func(fr *frame, a []value) value {
		fs := fr.i.ps.vfs()
		k := fr.i.concStr(a[0])
		if _, ok := fs.env[k]; !ok {
			fs.envK = append(fs.envK, k)
		}
		fs.env[k] = a[1]
		return nil
	})
	V("vrtChdir", func(fr *frame, a []value) value {
		fr.i.ps.vfs().cwd = path.Clean(fr.i.concStr(a[0]))
		return nil
	})
	ext("os.Getwd", func(fr *frame, a []value) value { return tuple{fr.i.ps.vfs().cwd, iface{}} })
	ext("os.Getenv", func(fr *frame, a []value) value {
		if v, ok := fr.i.ps.vfs().env[fr.i.concStr(a[0])]; ok {
			return v
		}
		return ""
	})
	ext("os.LookupEnv", func(fr *frame, a []value) value {
		if v, ok := fr.i.ps.vfs().env[fr.i.concStr(a[0])]; ok {
			return tuple{v, true}
		}
		return tuple{"", false}
	})
	ext("os.Environ", func(fr *frame, a []value) value {
		fs := fr.i.ps.vfs()
		ks := append([]string{}, fs.envK...)
		sort.Strings(ks)
		out := []value{}
		for _, k := range ks {
			out = append(out, mkStr(append(strBytes(k+"="), strBytes(fs.env[k])...)))
		}
		return out
	})
	ext("os.Setenv", func(fr *frame, a []value) value {
		fs := fr.i.ps.vfs()
		k := fr.i.concStr(a[0])
		if _, ok := fs.env[k]; !ok {
			fs.envK = append(fs.envK, k)
		}
		fs.env[k] = a[1]
		return iface{}
	})
	stat := func(fr *frame, a []value) value {
		p := fr.i.concStr(a[0])
		fs := fr.i.ps.vfs()
		if !path.IsAbs(p) {
			p = path.Join(fs.cwd, p)
		}
		k, f := fs.stat(p)
		if k == 0 {
			return tuple{iface{}, fr.i.errnoErr(fr, "stat", fr.i.concStr(a[0]), 2)}
		}
		size := 0
		if f.content != nil {
			size = strLen(f.content)
		}
		return tuple{fr.i.fileInfo(p, k == 2, size), iface{}}
	}
	ext("os.Stat", stat)
	ext("os.Lstat", stat)
	ext("os.ReadFile", func(fr *frame, a []value) value {
		p := fr.i.concStr(a[0])
		fs := fr.i.ps.vfs()
		ap := p
		if !path.IsAbs(ap) {
			ap = path.Join(fs.cwd, ap)
		}
		k, f := fs.stat(ap)
		switch k {
		case 0:
			return tuple{[]value(nil), fr.i.errnoErr(fr, "open", p, 2)}
		case 2:
			return tuple{[]value(nil), fr.i.errnoErr(fr, "read", p, 21)}
		}
		return tuple{append([]value{}, strBytes(f.content)...), iface{}}
	})
	ext("os.Open", func(fr *frame, a []value) value {
		p := fr.i.concStr(a[0])
		fs := fr.i.ps.vfs()
		ap := p
		if !path.IsAbs(ap) {
			ap = path.Join(fs.cwd, ap)
		}
		k, f := fs.stat(ap)
		if k == 0 {
			return tuple{(*value)(nil), fr.i.errnoErr(fr, "open", p, 2)}
		}
		ft := fr.i.prog.ImportedPackage("os").Type("File").Type()
		cell := zero(ft)
		ptr := &cell
		o := &vopen{name: p}
		if k == 1 {
			o.content = strBytes(f.content)
		} else {
			o.content = nil
			o.closed = false
			o.pos = -1 // directory
		}
		fs.open[ptr] = o
		return tuple{ptr, iface{}}
	})
	ext("(*os.File).Close", func(fr *frame, a []value) value { return iface{} })
	ext("(*os.File).Name", func(fr *frame, a []value) value {
		if o := fr.i.ps.vfs().open[a[0].(*value)]; o != nil {
			return o.name
		}
		return ""
	})
	ext("(*os.File).Read", func(fr *frame, a []value) value {
		o := fr.i.ps.vfs().open[a[0].(*value)]
		buf := a[1].([]value)
		if o == nil {
			return tuple{0, fr.i.mkError(fr, "invalid argument")}
		}
		if o.pos < 0 {
			return tuple{0, fr.i.errnoErr(fr, "read", o.name, 21)}
		}
		if o.pos >= len(o.content) {
			eof := fr.i.prog.ImportedPackage("io").Var("EOF")
			return tuple{0, *fr.i.globalCell(eof)}
		}
		n := copy(buf, o.content[o.pos:])
		o.pos += n
		return tuple{n, iface{}}
	})
	ext("io.ReadAll", func(fr *frame, a []value) value {
		r := a[0].(iface)
		if p, ok := r.v.(*value); ok {
			if o := fr.i.ps.vfs().open[p]; o != nil {
				if o.pos < 0 {
					return tuple{[]value{}, fr.i.errnoErr(fr, "read", o.name, 21)}
				}
				out := append([]value{}, o.content[o.pos:]...)
				o.pos = len(o.content)
				return tuple{out, iface{}}
			}
		}
		// generic reader: call Read until EOF
		m := fr.i.methodByName(r.t, "Read")
		if m == nil {
			panic(pathAbort{"unsupported: io.ReadAll on " + r.t.String()})
		}
		var out []value
		for {
			buf := make([]value, 512)
			for k := range buf {
				buf[k] = uint8(0)
			}
			res := call(fr.i, fr, 0, m, []value{r.v, buf}).(tuple)
			n := int(asInt64(res[0]))
			out = append(out, buf[:n]...)
			if e, ok := res[1].(iface); ok && e.t != nil {
				eof := *fr.i.globalCell(fr.i.prog.ImportedPackage("io").Var("EOF"))
				if equals(fr.i, e.t, e, eof) {
					return tuple{out, iface{}}
				}
				return tuple{out, e}
			}
			if n == 0 && len(out) > 1<<20 {
				panic(pathAbort{"io.ReadAll: runaway reader"})
			}
		}
	})
	ext("path/filepath.EvalSymlinks", func(fr *frame, a []value) value {
		p := fr.i.concStr(a[0])
		fs := fr.i.ps.vfs()
		ap := p
		if !path.IsAbs(ap) {
			ap = path.Join(fs.cwd, ap)
		}
		if k, _ := fs.stat(ap); k == 0 {
			return tuple{"", fr.i.errnoErr(fr, "lstat", p, 2)}
		}
		if r := fs.real(ap); r != path.Clean(ap) {
			return tuple{r, iface{}}
		}
		return tuple{path.Clean(p), iface{}}
	})
	ext("(syscall.Errno).Error", func(fr *frame, a []value) value {
		switch asInt64(a[0]) {
		case 2:
			return "no such file or directory"
		case 21:
			return "is a directory"
		case 20:
			return "not a directory"
		case 13:
			return "permission denied"
		}
		return fmt.Sprintf("errno %d", asInt64(a[0]))
	})
	ext("os.Hostname", func(fr *frame, a []value) value { return tuple{"host", iface{}} })
}

func errnoOf(v value) (uintptr, bool) {
	e, ok := v.(iface)
	if !ok || e.t == nil {
		return 0, false
	}
	switch x := e.v.(type) {
	case uintptr:
		if n, ok := e.t.(*types.Named); ok && n.Obj().Name() == "Errno" {
			return x, true
		}
	case *value:
		// *fs.PathError / *os.LinkError / *os.SyscallError: look at the Err field
		if x == nil {
			return 0, false
		}
		if st, ok := (*x).(structure); ok {
			for _, f := range st {
				if fi, ok := f.(iface); ok && fi.t != nil {
					if n, ok := errnoOf(fi); ok {
						return n, true
					}
				}
			}
		}
	}
	return 0, false
}

func init() {
	externals["os.IsNotExist"] = func(fr *frame, a []value) value {
		n, ok := errnoOf(a[0])
		return ok && n == 2
	}
	externals["os.IsExist"] = func(fr *frame, a []value) value {
		n, ok := errnoOf(a[0])
		return ok && n == 17
	}
	externals["os.IsPermission"] = func(fr *frame, a []value) value {
		n, ok := errnoOf(a[0])
		return ok && n == 13
	}
}
