package interp

// Exported helpers for the driver.

import (
	"encoding/json"
	"go/types"
	"os"
	"sort"
	"strconv"
	"strings"
)

// Params are harness parameters (bounds) of the current run, read by vrtParam.
var Params = map[string]int{}

func init() {
	vrtIntrinsics["vrtParam"] = func(fr *frame, a []value) value {
		if v, ok := Params[a[0].(string)]; ok {
			return v
		}
		return int(asInt64(a[1]))
	}
}

func (r *Report) FuncList() []string {
	var out []string
	for f := range r.Funcs {
		out = append(out, f)
	}
	sort.Strings(out)
	return out
}

// FuncsByPrefix counts interpreted functions whose name contains sub.
func (r *Report) FuncsMatching(sub string) []string {
	var out []string
	for f := range r.Funcs {
		if strings.Contains(f, sub) {
			out = append(out, f)
		}
	}
	sort.Strings(out)
	return out
}

// SchemaPath is the compose JSON schema file of the tree under test.
var SchemaPath = "/repo/schema/compose-spec.json"

func schemaKeys(path string) []string {
	b, err := os.ReadFile(SchemaPath)
	if err != nil {
		return nil
	}
	var doc interface{}
	if json.Unmarshal(b, &doc) != nil {
		return nil
	}
	cur := doc
	for _, seg := range strings.Split(path, "/") {
		if seg == "" {
			continue
		}
		switch x := cur.(type) {
		case map[string]interface{}:
			cur = x[seg]
		case []interface{}:
			n, err := strconv.Atoi(seg)
			if err != nil || n >= len(x) {
				return nil
			}
			cur = x[n]
		default:
			return nil
		}
	}
	m, ok := cur.(map[string]interface{})
	if !ok {
		return nil
	}
	var keys []string
	for k := range m {
		keys = append(keys, k)
	}
	sort.Strings(keys)
	return keys
}

func init() {
	vrtIntrinsics["vrtSchemaKeys"] = func(fr *frame, a []value) value {
		return valStrs(schemaKeys(a[0].(string)))
	}
	// vrtSchemaTree() map[string]any: the compose JSON schema of the tree under test, parsed
	vrtIntrinsics["vrtSchemaTree"] = func(fr *frame, a []value) value {
		b, err := os.ReadFile(SchemaPath)
		if err != nil {
			return (*omap)(nil)
		}
		var doc interface{}
		if json.Unmarshal(b, &doc) != nil {
			return (*omap)(nil)
		}
		m, _ := unwrapAny(fromNativeJSON(doc)).(*omap)
		return m
	}
}

func fromNativeJSON(v interface{}) value {
	switch x := v.(type) {
	case nil:
		return iface{}
	case []interface{}:
		out := make([]value, len(x))
		for k, e := range x {
			out[k] = fromNativeJSON(e)
		}
		return asAny(out)
	case map[string]interface{}:
		keys := make([]string, 0, len(x))
		for k := range x {
			keys = append(keys, k)
		}
		sort.Strings(keys)
		m := makeMap(types.Typ[types.String], 0).(*omap)
		for _, k := range keys {
			m.insert(nil, k, fromNativeJSON(x[k]))
		}
		return asAny(m)
	}
	return asAny(v)
}
