package interp

// Exported helpers for the driver.

import (
	"sort"
	"strings"
)

// Params are harness parameters (bounds) of the current run, read by vrtParam.
var Params = map[string]int{}

func init() {
	vrtIntrinsics["vrtParam"] = func(fr *frame, a []value) value {
		if v, ok := Params[a[0].(string)]; ok {
			return v
		}
		return int(asInt64(a[1]))
	}
}

func (r *Report) FuncList() []string {
	var out []string
	for f := range r.Funcs {
		out = append(out, f)
	}
	sort.Strings(out)
	return out
}

// FuncsByPrefix counts interpreted functions whose name contains sub.
func (r *Report) FuncsMatching(sub string) []string {
	var out []string
	for f := range r.Funcs {
		if strings.Contains(f, sub) {
			out = append(out, f)
		}
	}
	sort.Strings(out)
	return out
}
