package interp

// Engine model of the YAML / JSON encoders (DESIGN §5-B): the value handed to the encoder
// is rendered by the encoders' documented contract - struct tags, omitempty, inline maps,
// and the types' own MarshalYAML / MarshalJSON methods, which are the real code and are
// called through the interpreter - into a canonical text in which every emitted string
// appears verbatim. Used to search the "output" for secret canaries and to compare
// renderings; the real byte syntax is outside.

import (
	"fmt"
	"go/token"
	"go/types"
	"reflect"
	"sort"
	"strings"
)

type encoder struct {
	i    *interpreter
	fr   *frame
	json bool
	out  []value
	err  value
}

func (e *encoder) w(s string)     { e.out = append(e.out, strBytes(s)...) }
func (e *encoder) wv(b []value)  { e.out = append(e.out, b...) }
func (e *encoder) quoted(v value) { e.w("\""); e.wv(strBytes(v)); e.w("\"") }

func (e *encoder) isZero(t types.Type, v value) bool {
	switch x := v.(type) {
	case nil:
		return true
	case string:
		return x == ""
	case sstr:
		return len(x.b) == 0
	case sym:
		return false
	case bool:
		return !x
	case iface:
		return x.t == nil
	case *value:
		return x == nil
	case *omap:
		return x.len() == 0
	case []value:
		return len(x) == 0
	case array:
		return len(x) == 0
	case structure:
		if e.json {
			return false // encoding/json never omits structs
		}
		st, _ := t.Underlying().(*types.Struct)
		for k, f := range x {
			var ft types.Type
			if st != nil {
				ft = st.Field(k).Type()
			}
			if !e.isZero(ft, f) {
				return false
			}
		}
		return true
	case float64:
		return x == 0
	case float32:
		return x == 0
	}
	if k := kindOfValue(v); k != types.Invalid {
		return asInt64(v) == 0
	}
	return false
}

func (e *encoder) marshaler(t types.Type) (*types.Func, bool) {
	name := "MarshalYAML"
	if e.json {
		name = "MarshalJSON"
	}
	ms := e.i.prog.MethodSets.MethodSet(t)
	for k := 0; k < ms.Len(); k++ {
		if ms.At(k).Obj().Name() == name {
			f := ms.At(k).Obj().(*types.Func)
			sig := f.Type().(*types.Signature)
			if sig.Params().Len() == 0 && sig.Results().Len() == 2 {
				return f, true
			}
		}
	}
	return nil, false
}

func (e *encoder) encode(t types.Type, v value, depth int) {
	if e.err != nil || depth > 50 {
		return
	}
	if x, ok := v.(iface); ok {
		if x.t == nil {
			e.w("null")
			return
		}
		e.encode(x.t, x.v, depth+1)
		return
	}
	if t != nil {
		// custom marshallers: value receiver methods on T, pointer receiver methods when we hold a pointer
		if _, isPtr := t.Underlying().(*types.Pointer); isPtr {
			if p, ok := v.(*value); ok && p == nil {
				e.w("null")
				return
			}
		}
		if _, ok := e.marshaler(t); ok {
			name := "MarshalYAML"
			if e.json {
				name = "MarshalJSON"
			}
			m := e.i.methodByName(t, name)
			if m != nil {
				res := call(e.i, e.fr, token.NoPos, m, []value{v}).(tuple)
				if er, ok := res[1].(iface); ok && er.t != nil {
					e.err = er
					return
				}
				if e.json {
					e.wv(res[0].([]value)) // already rendered text
				} else {
					e.encode(nil, res[0], depth+1)
				}
				return
			}
		}
	}
	switch x := v.(type) {
	case nil:
		e.w("null")
	case string, sstr:
		e.quoted(x)
	case bool:
		e.w(fmt.Sprint(x))
	case sym:
		if x.t.srt == 0 {
			if e.i.ps.branch(x.t) {
				e.w("true")
			} else {
				e.w("false")
			}
		} else {
			e.w(fmt.Sprint(e.i.concIntVal(x)))
		}
	case float32, float64:
		e.w(fmt.Sprint(x))
	case *value:
		if x == nil {
			e.w("null")
			return
		}
		var et types.Type
		if t != nil {
			if pt, ok := t.Underlying().(*types.Pointer); ok {
				et = pt.Elem()
			}
		}
		e.encode(et, *x, depth+1)
	case []value:
		var et types.Type
		if t != nil {
			if st, ok := t.Underlying().(*types.Slice); ok {
				et = st.Elem()
			}
		}
		if x == nil && e.json {
			e.w("null")
			return
		}
		e.w("[")
		for k, el := range x {
			if k > 0 {
				e.w(",")
			}
			e.encode(et, el, depth+1)
		}
		e.w("]")
	case array:
		e.w("[")
		for k, el := range x {
			if k > 0 {
				e.w(",")
			}
			e.encode(nil, el, depth+1)
		}
		e.w("]")
	case *omap:
		var et types.Type
		if t != nil {
			if mt, ok := t.Underlying().(*types.Map); ok {
				et = mt.Elem()
			}
		}
		if x == nil && e.json {
			e.w("null")
			return
		}
		e.w("{")
		e.mapEntries(x, et, depth, true)
		e.w("}")
	case structure:
		st, _ := t.Underlying().(*types.Struct)
		if st == nil {
			e.w("{?}")
			return
		}
		e.w("{")
		first := true
		tagName := "yaml"
		if e.json {
			tagName = "json"
		}
		for k := 0; k < st.NumFields(); k++ {
			f := st.Field(k)
			if !f.Exported() {
				continue
			}
			tag := reflect.StructTag(st.Tag(k)).Get(tagName)
			name, opts, _ := strings.Cut(tag, ",")
			if name == "-" {
				continue
			}
			if name == "" {
				name = f.Name()
				if !e.json {
					name = strings.ToLower(name)
				}
			}
			if strings.Contains(opts, "omitempty") && e.isZero(f.Type(), x[k]) {
				continue
			}
			if strings.Contains(opts, "inline") && !e.json {
				if m, ok := x[k].(*omap); ok {
					if m.len() > 0 {
						if !first {
							e.w(",")
						}
						first = false
						var et types.Type
						if mt, ok := f.Type().Underlying().(*types.Map); ok {
							et = mt.Elem()
						}
						e.mapEntries(m, et, depth, true)
					}
					continue
				}
			}
			if !first {
				e.w(",")
			}
			first = false
			e.w("\"" + name + "\":")
			e.encode(f.Type(), x[k], depth+1)
		}
		e.w("}")
	default:
		if k := kindOfValue(v); k != types.Invalid {
			e.w(fmt.Sprint(v))
			return
		}
		e.w(fmt.Sprintf("<%T>", v))
	}
}

func (e *encoder) mapEntries(m *omap, et types.Type, depth int, _ bool) {
	es := m.live()
	// encoders sort keys; symbolic keys are concretised for ordering purposes only when needed
	allConc := true
	for _, en := range es {
		if _, ok := en.key.(string); !ok {
			allConc = false
		}
	}
	if allConc {
		sort.SliceStable(es, func(a, b int) bool { return es[a].key.(string) < es[b].key.(string) })
	}
	for k, en := range es {
		if k > 0 {
			e.w(",")
		}
		if isStr(en.key) {
			e.quoted(en.key)
		} else {
			e.w("\"" + toString(en.key) + "\"")
		}
		e.w(":")
		e.encode(et, en.val, depth+1)
	}
}

func (i *interpreter) renderEncoded(fr *frame, v value, json bool) ([]value, value) {
	e := &encoder{i: i, fr: fr, json: json}
	e.encode(nil, v, 0)
	i.ps.intr["encoder-model"]++
	if e.err != nil {
		return nil, e.err
	}
	return e.out, nil
}

func init() {
	ext := func(name string, f externalFn) { externals[name] = f }
	ext("gopkg.in/yaml.v3.Marshal", func(fr *frame, a []value) value {
		out, err := fr.i.renderEncoded(fr, a[0], false)
		if err != nil {
			return tuple{[]value(nil), err}
		}
		return tuple{out, iface{}}
	})
	ext("encoding/json.Marshal", func(fr *frame, a []value) value {
		out, err := fr.i.renderEncoded(fr, a[0], true)
		if err != nil {
			return tuple{[]value(nil), err}
		}
		return tuple{out, iface{}}
	})
	ext("encoding/json.MarshalIndent", func(fr *frame, a []value) value {
		out, err := fr.i.renderEncoded(fr, a[0], true)
		if err != nil {
			return tuple{[]value(nil), err}
		}
		return tuple{out, iface{}}
	})
	// yaml.NewEncoder(w) / SetIndent / Encode / Close: the encoder object remembers its writer
	ext("gopkg.in/yaml.v3.NewEncoder", func(fr *frame, a []value) value {
		v := value(a[0])
		return &v
	})
	ext("(*gopkg.in/yaml.v3.Encoder).SetIndent", func(fr *frame, a []value) value { return nil })
	ext("(*gopkg.in/yaml.v3.Encoder).Close", func(fr *frame, a []value) value { return iface{} })
	ext("(*gopkg.in/yaml.v3.Encoder).Encode", func(fr *frame, a []value) value {
		w := (*(a[0].(*value))).(iface)
		out, err := fr.i.renderEncoded(fr, a[1], false)
		if err != nil {
			return err
		}
		m := fr.i.methodByName(w.t, "Write")
		if m == nil {
			panic(pathAbort{"unsupported: yaml encoder writer " + w.t.String()})
		}
		call(fr.i, fr, token.NoPos, m, []value{w.v, out})
		return iface{}
	})
}
