package interp

// Engine model of the YAML / JSON encoders (DESIGN §5-B): the value handed to the encoder
// is rendered by the encoders' documented contract - struct tags, omitempty, inline maps,
// and the types' own MarshalYAML / MarshalJSON methods, which are the real code and are
// called through the interpreter - into a canonical text in which every emitted string
// appears verbatim. Used to search the "output" for secret canaries and to compare
// renderings; the real byte syntax is outside.

import (
	"math"
	"fmt"
	"go/token"
	"go/types"
	"reflect"
	"sort"
	"strings"
)

type encoder struct {
	i    *interpreter
	fr   *frame
	json bool
	out  []value
	err  value
}

func (e *encoder) w(s string)     { e.out = append(e.out, strBytes(s)...) }
func (e *encoder) wv(b []value)  { e.out = append(e.out, b...) }
func (e *encoder) quoted(v value) { e.w("\""); e.wv(strBytes(v)); e.w("\"") }

func (e *encoder) isZero(t types.Type, v value) bool {
	if t != nil && !e.json {
		// yaml.v3 asks the value itself when it implements IsZero() bool (yaml.IsZeroer)
		ms := e.i.prog.MethodSets.MethodSet(t)
		for k := 0; k < ms.Len(); k++ {
			if f, ok := ms.At(k).Obj().(*types.Func); ok && f.Name() == "IsZero" {
				sig := f.Type().(*types.Signature)
				if sig.Params().Len() == 0 && sig.Results().Len() == 1 {
					if m := e.i.methodByName(t, "IsZero"); m != nil {
						if b, ok := call(e.i, e.fr, token.NoPos, m, []value{v}).(bool); ok {
							return b
						}
					}
				}
			}
		}
	}
	switch x := v.(type) {
	case nil:
		return true
	case string:
		return x == ""
	case sstr:
		return len(x.b) == 0
	case sym:
		return false
	case bool:
		return !x
	case iface:
		return x.t == nil
	case *value:
		return x == nil
	case *omap:
		return x.len() == 0
	case []value:
		return len(x) == 0
	case array:
		return len(x) == 0
	case structure:
		if e.json {
			return false // encoding/json never omits structs
		}
		st, _ := t.Underlying().(*types.Struct)
		for k, f := range x {
			var ft types.Type
			if st != nil {
				ft = st.Field(k).Type()
			}
			if !e.isZero(ft, f) {
				return false
			}
		}
		return true
	case float64:
		return x == 0
	case float32:
		return x == 0
	}
	if k := kindOfValue(v); k != types.Invalid {
		return asInt64(v) == 0
	}
	return false
}

func (e *encoder) marshaler(t types.Type) (*types.Func, bool) {
	name := "MarshalYAML"
	if e.json {
		name = "MarshalJSON"
	}
	ms := e.i.prog.MethodSets.MethodSet(t)
	for k := 0; k < ms.Len(); k++ {
		if ms.At(k).Obj().Name() == name {
			f := ms.At(k).Obj().(*types.Func)
			sig := f.Type().(*types.Signature)
			if sig.Params().Len() == 0 && sig.Results().Len() == 2 {
				return f, true
			}
		}
	}
	return nil, false
}

func (e *encoder) encode(t types.Type, v value, depth int) {
	if e.err != nil || depth > 50 {
		return
	}
	if x, ok := v.(iface); ok {
		if x.t == nil {
			e.w("null")
			return
		}
		e.encode(x.t, x.v, depth+1)
		return
	}
	if t != nil {
		// custom marshallers: value receiver methods on T, pointer receiver methods when we hold a pointer
		if _, isPtr := t.Underlying().(*types.Pointer); isPtr {
			if p, ok := v.(*value); ok && p == nil {
				e.w("null")
				return
			}
		}
		if _, ok := e.marshaler(t); ok {
			name := "MarshalYAML"
			if e.json {
				name = "MarshalJSON"
			}
			m := e.i.methodByName(t, name)
			if m != nil {
				res := call(e.i, e.fr, token.NoPos, m, []value{v}).(tuple)
				if er, ok := res[1].(iface); ok && er.t != nil {
					e.err = er
					return
				}
				if e.json {
					e.wv(res[0].([]value)) // already rendered text
				} else {
					e.encode(nil, res[0], depth+1)
				}
				return
			}
		}
	}
	switch x := v.(type) {
	case nil:
		e.w("null")
	case string, sstr:
		e.quoted(x)
	case bool:
		e.w(fmt.Sprint(x))
	case sym:
		if x.t.srt == 0 {
			if e.i.ps.branch(x.t) {
				e.w("true")
			} else {
				e.w("false")
			}
		} else {
			e.w(fmt.Sprint(e.i.concIntVal(x)))
		}
	case float32, float64:
		if f, ok := x.(float64); ok && e.json && (math.IsNaN(f) || math.IsInf(f, 0)) {
			// encoding/json refuses these values
			e.err = e.i.mkError(e.fr, "json: unsupported value: "+fmt.Sprint(f))
			return
		}
		e.w(fmt.Sprint(x))
	case *value:
		if x == nil {
			e.w("null")
			return
		}
		var et types.Type
		if t != nil {
			if pt, ok := t.Underlying().(*types.Pointer); ok {
				et = pt.Elem()
			}
		}
		e.encode(et, *x, depth+1)
	case []value:
		var et types.Type
		if t != nil {
			if st, ok := t.Underlying().(*types.Slice); ok {
				et = st.Elem()
			}
		}
		if x == nil && e.json {
			e.w("null")
			return
		}
		e.w("[")
		for k, el := range x {
			if k > 0 {
				e.w(",")
			}
			e.encode(et, el, depth+1)
		}
		e.w("]")
	case array:
		e.w("[")
		for k, el := range x {
			if k > 0 {
				e.w(",")
			}
			e.encode(nil, el, depth+1)
		}
		e.w("]")
	case *omap:
		var et types.Type
		if t != nil {
			if mt, ok := t.Underlying().(*types.Map); ok {
				et = mt.Elem()
			}
		}
		if x == nil && e.json {
			e.w("null")
			return
		}
		e.w("{")
		e.mapEntries(x, et, depth, true)
		e.w("}")
	case structure:
		st, _ := t.Underlying().(*types.Struct)
		if st == nil {
			e.w("{?}")
			return
		}
		e.w("{")
		first := true
		tagName := "yaml"
		if e.json {
			tagName = "json"
		}
		for k := 0; k < st.NumFields(); k++ {
			f := st.Field(k)
			if !f.Exported() {
				continue
			}
			tag := reflect.StructTag(st.Tag(k)).Get(tagName)
			name, opts, _ := strings.Cut(tag, ",")
			if name == "-" {
				continue
			}
			if name == "" {
				name = f.Name()
				if !e.json {
					name = strings.ToLower(name)
				}
			}
			if strings.Contains(opts, "omitempty") && e.isZero(f.Type(), x[k]) {
				continue
			}
			if strings.Contains(opts, "inline") && !e.json {
				if m, ok := x[k].(*omap); ok {
					if m.len() > 0 {
						if !first {
							e.w(",")
						}
						first = false
						var et types.Type
						if mt, ok := f.Type().Underlying().(*types.Map); ok {
							et = mt.Elem()
						}
						e.mapEntries(m, et, depth, true)
					}
					continue
				}
			}
			if !first {
				e.w(",")
			}
			first = false
			e.w("\"" + name + "\":")
			e.encode(f.Type(), x[k], depth+1)
		}
		e.w("}")
	default:
		if k := kindOfValue(v); k != types.Invalid {
			e.w(fmt.Sprint(v))
			return
		}
		e.w(fmt.Sprintf("<%T>", v))
	}
}

func (e *encoder) mapEntries(m *omap, et types.Type, depth int, _ bool) {
	es := m.live()
	// encoders sort keys; symbolic keys are concretised for ordering purposes only when needed
	allConc := true
	for _, en := range es {
		if _, ok := en.key.(string); !ok {
			allConc = false
		}
	}
	if allConc {
		sort.SliceStable(es, func(a, b int) bool { return es[a].key.(string) < es[b].key.(string) })
	}
	for k, en := range es {
		if k > 0 {
			e.w(",")
		}
		if isStr(en.key) {
			e.quoted(en.key)
		} else {
			e.w("\"" + toString(en.key) + "\"")
		}
		e.w(":")
		e.encode(et, en.val, depth+1)
	}
}

func (i *interpreter) renderEncoded(fr *frame, v value, json bool) ([]value, value) {
	e := &encoder{i: i, fr: fr, json: json}
	tr := e.tree(nil, v, 0)
	i.ps.intr["encoder-model"]++
	if e.err != nil {
		return nil, e.err
	}
	id := len(i.ps.trees)
	i.ps.trees = append(i.ps.trees, tr)
	out := strBytes(fmt.Sprintf("%s%d\n", treeMarker, id))
	textOf(tr, &out)
	return out, nil
}

func init() {
	ext := func(name string, f externalFn) { externals[name] = f }
	ext("gopkg.in/yaml.v3.Marshal", func(fr *frame, a []value) value {
		out, err := fr.i.renderEncoded(fr, a[0], false)
		if err != nil {
			return tuple{[]value(nil), err}
		}
		return tuple{out, iface{}}
	})
	ext("encoding/json.Marshal", func(fr *frame, a []value) value {
		out, err := fr.i.renderEncoded(fr, a[0], true)
		if err != nil {
			return tuple{[]value(nil), err}
		}
		return tuple{out, iface{}}
	})
	ext("encoding/json.MarshalIndent", func(fr *frame, a []value) value {
		out, err := fr.i.renderEncoded(fr, a[0], true)
		if err != nil {
			return tuple{[]value(nil), err}
		}
		return tuple{out, iface{}}
	})
	// yaml.NewEncoder(w) / SetIndent / Encode / Close: the encoder object remembers its writer
	ext("gopkg.in/yaml.v3.NewEncoder", func(fr *frame, a []value) value {
		v := value(a[0])
		return &v
	})
	ext("(*gopkg.in/yaml.v3.Encoder).SetIndent", func(fr *frame, a []value) value { return nil })
	ext("(*gopkg.in/yaml.v3.Encoder).Close", func(fr *frame, a []value) value { return iface{} })
	ext("(*gopkg.in/yaml.v3.Encoder).Encode", func(fr *frame, a []value) value {
		w := (*(a[0].(*value))).(iface)
		out, err := fr.i.renderEncoded(fr, a[1], false)
		if err != nil {
			return err
		}
		m := fr.i.methodByName(w.t, "Write")
		if m == nil {
			panic(pathAbort{"unsupported: yaml encoder writer " + w.t.String()})
		}
		call(fr.i, fr, token.NoPos, m, []value{w.v, out})
		return iface{}
	})
}


// ---- tree form of the same rendering: what a decoder would read back from the bytes

func anyOf(v value) value { return asAny(v) }

func (e *encoder) tree(t types.Type, v value, depth int) value {
	if e.err != nil || depth > 50 {
		return nil
	}
	if x, ok := v.(iface); ok {
		if x.t == nil {
			return nil
		}
		return e.tree(x.t, x.v, depth+1)
	}
	if t != nil {
		if _, isPtr := t.Underlying().(*types.Pointer); isPtr {
			if p, ok := v.(*value); ok && p == nil {
				return nil
			}
		}
		if _, ok := e.marshaler(t); ok {
			name := "MarshalYAML"
			if e.json {
				name = "MarshalJSON"
			}
			if m := e.i.methodByName(t, name); m != nil {
				res := call(e.i, e.fr, token.NoPos, m, []value{v}).(tuple)
				if er, ok := res[1].(iface); ok && er.t != nil {
					e.err = er
					return nil
				}
				if e.json {
					b := res[0].([]value)
					if tr, ok := e.i.ps.lookupTree(b); ok {
						return tr
					}
					if tr, ok := parseJSONText(b); ok {
						return tr
					}
					e.err = e.i.mkError(e.fr, "json: error calling MarshalJSON: invalid JSON text")
					return nil
				}
				return e.tree(nil, res[0], depth+1)
			}
		}
	}
	switch x := v.(type) {
	case nil:
		return nil
	case string, sstr, bool:
		return x
	case sym:
		if x.t.srt == 0 {
			return e.i.ps.branch(x.t)
		}
		return int(e.i.concIntVal(x))
	case float32:
		return float64(x)
	case float64:
		return x
	case *value:
		if x == nil {
			return nil
		}
		var et types.Type
		if t != nil {
			if pt, ok := t.Underlying().(*types.Pointer); ok {
				et = pt.Elem()
			}
		}
		return e.tree(et, *x, depth+1)
	case []value:
		var et types.Type
		if t != nil {
			if st, ok := t.Underlying().(*types.Slice); ok {
				et = st.Elem()
			}
		}
		if x == nil && e.json {
			return nil
		}
		out := make([]value, len(x))
		for k, el := range x {
			out[k] = anyOf(e.tree(et, el, depth+1))
		}
		return out
	case array:
		out := make([]value, len(x))
		for k, el := range x {
			out[k] = anyOf(e.tree(nil, el, depth+1))
		}
		return out
	case *omap:
		var et types.Type
		if t != nil {
			if mt, ok := t.Underlying().(*types.Map); ok {
				et = mt.Elem()
			}
		}
		if x == nil && e.json {
			return nil
		}
		out := makeMap(types.Typ[types.String], 0).(*omap)
		e.treeEntries(out, x, et, depth)
		return out
	case structure:
		st, _ := t.Underlying().(*types.Struct)
		out := makeMap(types.Typ[types.String], 0).(*omap)
		if st == nil {
			return out
		}
		tagName := "yaml"
		if e.json {
			tagName = "json"
		}
		for k := 0; k < st.NumFields(); k++ {
			f := st.Field(k)
			if !f.Exported() {
				continue
			}
			tag := reflect.StructTag(st.Tag(k)).Get(tagName)
			name, opts, _ := strings.Cut(tag, ",")
			if name == "-" {
				continue
			}
			if name == "" {
				name = f.Name()
				if !e.json {
					name = strings.ToLower(name)
				}
			}
			if strings.Contains(opts, "omitempty") && e.isZero(f.Type(), x[k]) {
				continue
			}
			if strings.Contains(opts, "inline") && !e.json {
				if m, ok := x[k].(*omap); ok {
					var et types.Type
					if mt, ok := f.Type().Underlying().(*types.Map); ok {
						et = mt.Elem()
					}
					e.treeEntries(out, m, et, depth)
					continue
				}
			}
			out.insert(e.i, name, anyOf(e.tree(f.Type(), x[k], depth+1)))
		}
		return out
	}
	if k := kindOfValue(v); k != types.Invalid {
		return int(asInt64(v))
	}
	return fmt.Sprintf("<%T>", v)
}

func (e *encoder) treeEntries(out *omap, m *omap, et types.Type, depth int) {
	if m == nil {
		return
	}
	for _, en := range m.live() {
		k := en.key
		if !isStr(k) {
			k = toString(k)
		}
		out.insert(e.i, k, anyOf(e.tree(et, en.val, depth+1)))
	}
}

// textOf serialises a tree canonically (sorted keys); every string appears verbatim.
func textOf(v value, out *[]value) {
	w := func(s string) { *out = append(*out, strBytes(s)...) }
	switch x := unwrapAny(v).(type) {
	case nil:
		w("null")
	case string, sstr:
		w("\"")
		*out = append(*out, strBytes(x)...)
		w("\"")
	case []value:
		w("[")
		for k, el := range x {
			if k > 0 {
				w(",")
			}
			textOf(el, out)
		}
		w("]")
	case *omap:
		w("{")
		es := x.live()
		conc := true
		for _, en := range es {
			if _, ok := en.key.(string); !ok {
				conc = false
			}
		}
		if conc {
			sort.SliceStable(es, func(a, b int) bool { return es[a].key.(string) < es[b].key.(string) })
		}
		for k, en := range es {
			if k > 0 {
				w(",")
			}
			w("\"")
			*out = append(*out, strBytes(en.key)...)
			w("\":")
			textOf(en.val, out)
		}
		w("}")
	default:
		w(fmt.Sprint(x))
	}
}

func (ps *pathState) lookupTree(b []value) (value, bool) {
	s, ok := mkStr(b).(string)
	if !ok {
		// symbolic content: only the marker prefix must be concrete
		var sb []byte
		for _, c := range b {
			cc, isC := c.(uint8)
			if !isC || cc == '\n' {
				break
			}
			sb = append(sb, cc)
		}
		s = string(sb)
	}
	if !strings.HasPrefix(s, treeMarker) {
		return nil, false
	}
	rest := s[len(treeMarker):]
	n := 0
	for n < len(rest) && rest[n] >= '0' && rest[n] <= '9' {
		n++
	}
	var id int
	fmt.Sscanf(rest[:n], "%d", &id)
	if id < len(ps.trees) {
		return ps.trees[id], true
	}
	return nil, false
}

const treeMarker = "#vrt-rendered:"

func init() {
	// vrtDecodeRendered(b []byte, json bool) (map[string]any, bool): what a decoder reads back
	vrtIntrinsics["vrtDecodeRendered"] = func(fr *frame, a []value) value {
		tr, ok := fr.i.ps.lookupTree(a[0].([]value))
		if !ok {
			return tuple{(*omap)(nil), false}
		}
		m, ok := snapshotValue(tr, 0).(*omap)
		if !ok {
			return tuple{(*omap)(nil), false}
		}
		return tuple{m, true}
	}
}

// parseJSONText reads hand-built JSON text returned by a MarshalJSON method (structural
// characters concrete, string contents possibly symbolic).
func parseJSONText(b []value) (value, bool) {
	p := &jsonp{b: b}
	v, ok := p.val()
	p.ws()
	if !ok || p.i != len(b) {
		return nil, false
	}
	return v, true
}

type jsonp struct {
	b []value
	i int
}

func (p *jsonp) c() (byte, bool) {
	if p.i >= len(p.b) {
		return 0, false
	}
	x, ok := p.b[p.i].(uint8)
	return x, ok
}
func (p *jsonp) ws() {
	for {
		c, ok := p.c()
		if !ok || (c != ' ' && c != '\n' && c != '\t' && c != '\r') {
			return
		}
		p.i++
	}
}
func (p *jsonp) val() (value, bool) {
	p.ws()
	c, ok := p.c()
	if !ok {
		return nil, false
	}
	switch {
	case c == '"':
		p.i++
		var out []value
		for p.i < len(p.b) {
			x := p.b[p.i]
			if cc, isC := x.(uint8); isC {
				if cc == '"' {
					p.i++
					return mkStr(out), true
				}
				if cc == '\\' && p.i+1 < len(p.b) {
					p.i++
					if n, ok := p.b[p.i].(uint8); ok {
						switch n {
						case 'n':
							out = append(out, byte('\n'))
						case 't':
							out = append(out, byte('\t'))
						default:
							out = append(out, n)
						}
						p.i++
						continue
					}
				}
			}
			out = append(out, x)
			p.i++
		}
		return nil, false
	case c == '{':
		p.i++
		m := makeMap(types.Typ[types.String], 0).(*omap)
		p.ws()
		if c, _ := p.c(); c == '}' {
			p.i++
			return m, true
		}
		for {
			k, ok := p.val()
			if !ok || !isStr(k) {
				return nil, false
			}
			p.ws()
			if c, _ := p.c(); c != ':' {
				return nil, false
			}
			p.i++
			v, ok := p.val()
			if !ok {
				return nil, false
			}
			m.insert(nil, k, asAny(v))
			p.ws()
			c, _ := p.c()
			p.i++
			if c == '}' {
				return m, true
			}
			if c != ',' {
				return nil, false
			}
		}
	case c == '[':
		p.i++
		out := []value{}
		p.ws()
		if c, _ := p.c(); c == ']' {
			p.i++
			return out, true
		}
		for {
			v, ok := p.val()
			if !ok {
				return nil, false
			}
			out = append(out, asAny(v))
			p.ws()
			c, _ := p.c()
			p.i++
			if c == ']' {
				return out, true
			}
			if c != ',' {
				return nil, false
			}
		}
	default:
		st := p.i
		for {
			c, ok := p.c()
			if !ok || strings.IndexByte(",]} \n\t", c) >= 0 {
				break
			}
			p.i++
		}
		var sb []byte
		for _, x := range p.b[st:p.i] {
			cc, ok := x.(uint8)
			if !ok {
				return nil, false
			}
			sb = append(sb, cc)
		}
		s := string(sb)
		switch s {
		case "true":
			return true, true
		case "false":
			return false, true
		case "null":
			return nil, true
		}
		var n int
		if _, err := fmt.Sscanf(s, "%d", &n); err == nil && fmt.Sprint(n) == s {
			return n, true
		}
		var f float64
		if _, err := fmt.Sscanf(s, "%g", &f); err == nil {
			return f, true
		}
		return nil, false
	}
}
