package interp

// The vrt* harness API as seen by the engine, the virtual file system stub and
// low-level bytealg intrinsics.

import (
	"go/token"
	"fmt"
	"go/types"
	"strings"
)

var vrtIntrinsics = map[string]externalFn{}

type vfs struct {
	files map[string]vfile
}
type vfile struct {
	dir     bool
	content value // string or sstr
}

func (ps *pathState) newVar(prefix string, w bvsort) *term {
	name := fmt.Sprintf("%s_%d", prefix, ps.nvars)
	ps.nvars++
	return ps.ts.newVar(name, w)
}

func sanitizeName(s string) string {
	var sb strings.Builder
	for _, c := range s {
		if (c >= 'a' && c <= 'z') || (c >= 'A' && c <= 'Z') || (c >= '0' && c <= '9') {
			sb.WriteRune(c)
		} else {
			sb.WriteByte('_')
		}
	}
	return "v_" + sb.String()
}

// newByte creates a fresh symbolic byte constrained to alphabet (empty: any 7-bit byte).
func (i *interpreter) newByte(name string, alphabet string) value {
	ps := i.ps
	ts := ps.ts
	v := ps.newVar(sanitizeName(name), 8)
	var c *term
	var first uint64
	if alphabet == "" {
		c = ts.cmp("bvult", v, ts.constBV(8, 0x80))
		first = 'a'
	} else {
		c = ts.constBool(false)
		for k := 0; k < len(alphabet); k++ {
			c = ts.or(c, ts.eq(v, ts.constBV(8, uint64(alphabet[k]))))
		}
		first = uint64(alphabet[0])
	}
	if len(alphabet) == 1 {
		return alphabet[0]
	}
	if _, ok := ps.model[int(v.val)]; !ok {
		ps.model[int(v.val)] = first
	}
	ps.addPC(c)
	if ps.assumedAscii == nil {
		ps.assumedAscii = map[int]bool{}
	}
	asc := true
	for k := 0; k < len(alphabet); k++ {
		if alphabet[k] >= 0x80 {
			asc = false
		}
	}
	if asc {
		ps.assumedAscii[v.id] = true
	}
	return sym{v, types.Uint8}
}

func (i *interpreter) newString(name string, n int, alphabet string) value {
	b := make([]value, n)
	for k := range b {
		b[k] = i.newByte(fmt.Sprintf("%s_%d", name, k), alphabet)
	}
	i.ps.inputs = append(i.ps.inputs, inputTerm{kind: "string", name: name, bytes: b})
	return mkStr(b)
}

func init() {
	V := func(name string, f externalFn) { vrtIntrinsics[name] = f }
	V("vrtString", func(fr *frame, a []value) value {
		name, max, alpha := a[0].(string), int(asInt64(a[1])), a[2].(string)
		n := fr.i.ps.choose(max + 1)
		return fr.i.newString(name, n, alpha)
	})
	V("vrtStringN", func(fr *frame, a []value) value {
		return fr.i.newString(a[0].(string), int(asInt64(a[1])), a[2].(string))
	})
	V("vrtInt", func(fr *frame, a []value) value {
		ps := fr.i.ps
		name, lo, hi := a[0].(string), asInt64(a[1]), asInt64(a[2])
		if lo == hi {
			ps.inputs = append(ps.inputs, inputTerm{kind: "int", name: name, t: ps.ts.constBV(64, uint64(lo))})
			return int(lo)
		}
		v := ps.newVar(sanitizeName(name), 64)
		if _, ok := ps.model[int(v.val)]; !ok {
			ps.model[int(v.val)] = uint64(lo)
		}
		ps.addPC(ps.ts.and(ps.ts.cmp("bvsge", v, ps.ts.constBV(64, uint64(lo))), ps.ts.cmp("bvsle", v, ps.ts.constBV(64, uint64(hi)))))
		ps.inputs = append(ps.inputs, inputTerm{kind: "int", name: name, t: v})
		return sym{v, types.Int}
	})
	V("vrtBool", func(fr *frame, a []value) value {
		ps := fr.i.ps
		v := ps.newVar(sanitizeName(a[0].(string)), 0)
		ps.inputs = append(ps.inputs, inputTerm{kind: "bool", name: a[0].(string), t: v})
		return sym{v, types.Bool}
	})
	V("vrtChoice", func(fr *frame, a []value) value {
		ps := fr.i.ps
		n := int(asInt64(a[1]))
		k := ps.choose(n)
		ps.inputs = append(ps.inputs, inputTerm{kind: "choice", name: a[0].(string), conc: k})
		return k
	})
	V("vrtAssume", func(fr *frame, a []value) value {
		fr.i.ps.assume(fr.i.termOf(a[0]))
		return nil
	})
	V("vrtAssert", func(fr *frame, a []value) value {
		site := ""
		if fr.caller != nil {
			site = fr.caller.fn.String()
		}
		fr.i.ps.assertCond(a[0].(string), site, fr.i.termOf(a[1]))
		return nil
	})
	V("vrtObserve", func(fr *frame, a []value) value {
		fr.i.ps.obs = append(fr.i.ps.obs, obsRec{label: a[0].(string), v: snapshotValue(a[1], 0)})
		return nil
	})
	V("vrtCover", func(fr *frame, a []value) value {
		fr.i.ps.covers[a[0].(string)] = true
		return nil
	})
	V("vrtEngine", func(fr *frame, a []value) value { return true })
	V("vrtMapOrder", func(fr *frame, a []value) value {
		fr.i.ps.mapOrder = int(asInt64(a[0]))
		fr.i.ps.mapSite = 0
		return nil
	})
	V("vrtMapSite", func(fr *frame, a []value) value {
		fr.i.ps.mapSite = int(asInt64(a[0]))
		fr.i.ps.mapSites = 0
		return nil
	})
	V("vrtMapSites", func(fr *frame, a []value) value { return fr.i.ps.mapSites })
	V("vrtResetMapSites", func(fr *frame, a []value) value { fr.i.ps.mapSites = 0; return nil })
	V("vrtDeepEqual", func(fr *frame, a []value) value {
		return mkScalar(fr.i.deepEqTerm(a[0], a[1], 0), types.Bool)
	})
	// vrtEquivalent: deep equality where a nil slice / map equals an empty one
	V("vrtEquivalent", func(fr *frame, a []value) value {
		fr.i.eqLoose = true
		defer func() { fr.i.eqLoose = false }()
		return mkScalar(fr.i.deepEqTerm(a[0], a[1], 0), types.Bool)
	})
	V("vrtLock", func(fr *frame, a []value) value { return nil })
	V("vrtUnlock", func(fr *frame, a []value) value { return nil })
	V("vrtYield", func(fr *frame, a []value) value {
		s := fr.i.sched()
		if Params["FREEYIELD"] == 1 {
			// a voluntary yield of the harness: any runnable goroutine may continue, at no cost to the preemption bound
			s.freeYield = true
			defer func() { s.freeYield = false }()
		}
		s.yield(nil)
		return nil
	})
	V("vrtSetPreemptions", func(fr *frame, a []value) value {
		fr.i.sched().maxPreempt = int(asInt64(a[0]))
		return nil
	})
	V("vrtConcretize", func(fr *frame, a []value) value { return fr.i.concStr(a[0]) })

	// internal/bytealg
	ext := func(name string, f externalFn) { externals[name] = f }
	ext("internal/bytealg.IndexByteString", func(fr *frame, a []value) value {
		return fr.i.indexOf(strBytes(a[0]), []value{a[1]}, 0)
	})
	ext("internal/bytealg.IndexByte", func(fr *frame, a []value) value {
		return fr.i.indexOf(a[0].([]value), []value{a[1]}, 0)
	})
	ext("internal/bytealg.LastIndexByteString", func(fr *frame, a []value) value {
		return fr.i.lastIndexOf(strBytes(a[0]), []value{a[1]})
	})
	ext("internal/bytealg.LastIndexByte", func(fr *frame, a []value) value {
		return fr.i.lastIndexOf(a[0].([]value), []value{a[1]})
	})
	ext("internal/bytealg.IndexString", func(fr *frame, a []value) value {
		return fr.i.indexOf(strBytes(a[0]), strBytes(a[1]), 0)
	})
	ext("internal/bytealg.Index", func(fr *frame, a []value) value {
		return fr.i.indexOf(a[0].([]value), a[1].([]value), 0)
	})
	count := func(i *interpreter, s []value, c value) int {
		n := 0
		for _, b := range s {
			if i.ps.branch(i.ps.ts.eq(i.termOf(b), i.termOf(c))) {
				n++
			}
		}
		return n
	}
	ext("internal/bytealg.CountString", func(fr *frame, a []value) value { return count(fr.i, strBytes(a[0]), a[1]) })
	ext("internal/bytealg.Count", func(fr *frame, a []value) value { return count(fr.i, a[0].([]value), a[1]) })
	ext("internal/bytealg.Equal", func(fr *frame, a []value) value {
		x, y := a[0].([]value), a[1].([]value)
		if len(x) != len(y) {
			return false
		}
		return mkScalar(fr.i.matchAt(x, 0, y), types.Bool)
	})
	ext("bytes.Equal", externals["internal/bytealg.Equal"])
	ext("internal/bytealg.Compare", func(fr *frame, a []value) value {
		x, y := mkStr(a[0].([]value)), mkStr(a[1].([]value))
		if fr.i.ps.branch(fr.i.strEqTerm(x, y)) {
			return 0
		}
		if fr.i.ps.branch(fr.i.strLessTerm(x, y, false)) {
			return -1
		}
		return 1
	})
	ext("internal/bytealg.MakeNoZero", func(fr *frame, a []value) value {
		n := int(asInt64(a[0]))
		out := make([]value, n)
		for k := range out {
			out[k] = uint8(0)
		}
		return out
	})
}

// snapshotValue deep-copies mutable structure so that later mutation does not change an observation.
func snapshotValue(v value, depth int) value {
	if depth > 40 {
		return v
	}
	switch x := v.(type) {
	case iface:
		return iface{t: x.t, v: snapshotValue(x.v, depth+1)}
	case []value:
		if x == nil {
			return x
		}
		out := make([]value, len(x))
		for k, e := range x {
			out[k] = snapshotValue(e, depth+1)
		}
		return out
	case array:
		out := make(array, len(x))
		for k, e := range x {
			out[k] = snapshotValue(e, depth+1)
		}
		return out
	case structure:
		out := make(structure, len(x))
		for k, e := range x {
			out[k] = snapshotValue(e, depth+1)
		}
		return out
	case *omap:
		if x == nil {
			return x
		}
		out := &omap{kt: x.kt, idx: map[interface{}]*mentry{}}
		for _, e := range x.live() {
			ne := &mentry{key: e.key, val: snapshotValue(e.val, depth+1)}
			out.entries = append(out.entries, ne)
			if simpleKey(e.key) {
				out.idx[e.key] = ne
			} else {
				out.other++
			}
			out.n++
		}
		return out
	case *value:
		if x == nil {
			return x
		}
		c := snapshotValue(*x, depth+1)
		return &c
	}
	return v
}

// deepEqTerm builds the term for reflect.DeepEqual-style equality of two values
// (maps as sets of entries with concrete keys; symbolic keys are concretised by branching).
func (i *interpreter) deepEqTerm(x, y value, depth int) *term {
	ts := i.ps.ts
	F, T := ts.constBool(false), ts.constBool(true)
	if depth > 60 {
		return T
	}
	if isStr(x) && isStr(y) {
		return i.strEqTerm(x, y)
	}
	if _, ok := x.(sym); ok {
		if kindOfValue(y) == types.Invalid {
			return F
		}
		return i.termOf(i.symBinop(token.EQL, x, y))
	}
	if _, ok := y.(sym); ok {
		if kindOfValue(x) == types.Invalid {
			return F
		}
		return i.termOf(i.symBinop(token.EQL, x, y))
	}
	switch a := x.(type) {
	case nil:
		return ts.constBool(y == nil)
	case iface:
		b, ok := y.(iface)
		if !ok {
			return F
		}
		if !sameType(a.t, b.t) {
			return F
		}
		if a.t == nil {
			return T
		}
		return i.deepEqTerm(a.v, b.v, depth+1)
	case []value:
		b, ok := y.([]value)
		if !ok || len(a) != len(b) || (!i.eqLoose && (a == nil) != (b == nil)) {
			return F
		}
		r := T
		for k := range a {
			r = ts.and(r, i.deepEqTerm(a[k], b[k], depth+1))
			if r.isFalse() {
				return r
			}
		}
		return r
	case array:
		b, ok := y.(array)
		if !ok || len(a) != len(b) {
			return F
		}
		r := T
		for k := range a {
			r = ts.and(r, i.deepEqTerm(a[k], b[k], depth+1))
		}
		return r
	case structure:
		b, ok := y.(structure)
		if !ok || len(a) != len(b) {
			return F
		}
		r := T
		for k := range a {
			r = ts.and(r, i.deepEqTerm(a[k], b[k], depth+1))
			if r.isFalse() {
				return r
			}
		}
		return r
	case *omap:
		b, ok := y.(*omap)
		if !ok {
			return F
		}
		if i.eqLoose && (a == nil || b == nil) {
			return ts.constBool((a == nil || a.len() == 0) && (b == nil || b.len() == 0))
		}
		if (a == nil) != (b == nil) || a.len() != b.len() {
			return F
		}
		r := T
		for _, e := range a.live() {
			bv, ok := b.lookup(i, e.key)
			if !ok {
				return F
			}
			r = ts.and(r, i.deepEqTerm(e.val, bv, depth+1))
			if r.isFalse() {
				return r
			}
		}
		return r
	case *value:
		b, ok := y.(*value)
		if !ok {
			return F
		}
		if a == b {
			return T
		}
		if a == nil || b == nil {
			return F
		}
		return i.deepEqTerm(*a, *b, depth+1)
	case string, bool, int, int8, int16, int32, int64, uint, uint8, uint16, uint32, uint64, uintptr, float32, float64:
		if fmt.Sprintf("%T", x) != fmt.Sprintf("%T", y) {
			return F
		}
		return ts.constBool(x == y)
	}
	// functions, channels: equal only if both nil / identical
	return ts.constBool(fmt.Sprintf("%v", x) == fmt.Sprintf("%v", y))
}
