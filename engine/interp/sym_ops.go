package interp

// Symbolic scalars and strings, and the operators over them.

import (
	"fmt"
	"go/token"
	"go/types"
)

// sym is a symbolic scalar of basic kind k.
type sym struct {
	t *term
	k types.BasicKind
}

// sstr is an immutable string with at least one symbolic byte; length is concrete.
type sstr struct {
	b []value // uint8 or sym(Uint8)
}

func kindWidth(k types.BasicKind) (bvsort, bool) {
	switch k {
	case types.Bool:
		return 0, false
	case types.Int, types.Int64:
		return 64, true
	case types.Int8:
		return 8, true
	case types.Int16:
		return 16, true
	case types.Int32:
		return 32, true
	case types.Uint, types.Uint64, types.Uintptr:
		return 64, false
	case types.Uint8:
		return 8, false
	case types.Uint16:
		return 16, false
	case types.Uint32:
		return 32, false
	}
	panic(fmt.Sprintf("kindWidth: unsupported kind %v", k))
}

func kindOfValue(v value) types.BasicKind {
	switch x := v.(type) {
	case sym:
		return x.k
	case bool:
		return types.Bool
	case int:
		return types.Int
	case int8:
		return types.Int8
	case int16:
		return types.Int16
	case int32:
		return types.Int32
	case int64:
		return types.Int64
	case uint:
		return types.Uint
	case uint8:
		return types.Uint8
	case uint16:
		return types.Uint16
	case uint32:
		return types.Uint32
	case uint64:
		return types.Uint64
	case uintptr:
		return types.Uintptr
	}
	return types.Invalid
}

func isSymbolic(v value) bool {
	switch v.(type) {
	case sym, sstr:
		return true
	}
	return false
}

// termOf returns the term of a scalar value (symbolic or concrete).
func (i *interpreter) termOf(v value) *term {
	ts := i.ps.ts
	switch x := v.(type) {
	case sym:
		return x.t
	case bool:
		return ts.constBool(x)
	case int:
		return ts.constBV(64, uint64(x))
	case int8:
		return ts.constBV(8, uint64(x))
	case int16:
		return ts.constBV(16, uint64(x))
	case int32:
		return ts.constBV(32, uint64(x))
	case int64:
		return ts.constBV(64, uint64(x))
	case uint:
		return ts.constBV(64, uint64(x))
	case uint8:
		return ts.constBV(8, uint64(x))
	case uint16:
		return ts.constBV(16, uint64(x))
	case uint32:
		return ts.constBV(32, uint64(x))
	case uint64:
		return ts.constBV(64, x)
	case uintptr:
		return ts.constBV(64, uint64(x))
	}
	panic(fmt.Sprintf("termOf: %T", v))
}

// fromConst builds the native value of kind k from raw bits.
func fromConst(v uint64, k types.BasicKind) value {
	switch k {
	case types.Bool:
		return v == 1
	case types.Int:
		return int(v)
	case types.Int8:
		return int8(v)
	case types.Int16:
		return int16(v)
	case types.Int32:
		return int32(v)
	case types.Int64:
		return int64(v)
	case types.Uint:
		return uint(v)
	case types.Uint8:
		return uint8(v)
	case types.Uint16:
		return uint16(v)
	case types.Uint32:
		return uint32(v)
	case types.Uint64:
		return v
	case types.Uintptr:
		return uintptr(v)
	}
	panic(fmt.Sprintf("fromConst: kind %v", k))
}

// mkScalar wraps a term as a value, folding constants to natives.
func mkScalar(t *term, k types.BasicKind) value {
	if t.isConst() {
		return fromConst(t.val, k)
	}
	return sym{t, k}
}

// mkStr builds a string value from bytes, native when fully concrete.
func mkStr(b []value) value {
	for _, x := range b {
		if _, ok := x.(sym); ok {
			return sstr{b}
		}
	}
	out := make([]byte, len(b))
	for i, x := range b {
		out[i] = x.(uint8)
	}
	return string(out)
}

// strBytes returns the bytes of a (possibly symbolic) string value.
func strBytes(v value) []value {
	switch x := v.(type) {
	case string:
		out := make([]value, len(x))
		for i := 0; i < len(x); i++ {
			out[i] = x[i]
		}
		return out
	case sstr:
		return x.b
	}
	panic(fmt.Sprintf("strBytes: %T", v))
}

func strLen(v value) int {
	switch x := v.(type) {
	case string:
		return len(x)
	case sstr:
		return len(x.b)
	}
	panic(fmt.Sprintf("strLen: %T", v))
}

func isStr(v value) bool {
	switch v.(type) {
	case string, sstr:
		return true
	}
	return false
}

// strEqTerm returns the term for x == y over string values.
func (i *interpreter) strEqTerm(x, y value) *term {
	ts := i.ps.ts
	if strLen(x) != strLen(y) {
		return ts.constBool(false)
	}
	xb, yb := strBytes(x), strBytes(y)
	r := ts.constBool(true)
	for k := range xb {
		r = ts.and(r, ts.eq(i.termOf(xb[k]), i.termOf(yb[k])))
		if r.isFalse() {
			return r
		}
	}
	return r
}

// strLessTerm returns the term for x < y (lexicographic, bytewise).
func (i *interpreter) strLessTerm(x, y value, orEq bool) *term {
	ts := i.ps.ts
	xb, yb := strBytes(x), strBytes(y)
	n := len(xb)
	if len(yb) < n {
		n = len(yb)
	}
	// tail: when common prefix equal
	var r *term
	if orEq {
		r = ts.constBool(len(xb) <= len(yb))
	} else {
		r = ts.constBool(len(xb) < len(yb))
	}
	for k := n - 1; k >= 0; k-- {
		a, b := i.termOf(xb[k]), i.termOf(yb[k])
		r = ts.ite(ts.eq(a, b), r, ts.cmp("bvult", a, b))
	}
	return r
}

func (i *interpreter) symStrBinop(op token.Token, x, y value) value {
	ts := i.ps.ts
	switch op {
	case token.ADD:
		b := append(append([]value{}, strBytes(x)...), strBytes(y)...)
		return mkStr(b)
	case token.EQL:
		return mkScalar(i.strEqTerm(x, y), types.Bool)
	case token.NEQ:
		return mkScalar(ts.not(i.strEqTerm(x, y)), types.Bool)
	case token.LSS:
		return mkScalar(i.strLessTerm(x, y, false), types.Bool)
	case token.LEQ:
		return mkScalar(i.strLessTerm(x, y, true), types.Bool)
	case token.GTR:
		return mkScalar(i.strLessTerm(y, x, false), types.Bool)
	case token.GEQ:
		return mkScalar(i.strLessTerm(y, x, true), types.Bool)
	}
	panic(fmt.Sprintf("symStrBinop: %s", op))
}

// symBinop evaluates a binary operator where at least one operand is symbolic.
func (i *interpreter) symBinop(op token.Token, x, y value) value {
	if isStr(x) || isStr(y) {
		return i.symStrBinop(op, x, y)
	}
	ts := i.ps.ts
	k := kindOfValue(x)
	if k == types.Invalid {
		panic(fmt.Sprintf("symBinop: unsupported operand %T %s %T", x, op, y))
	}
	a := i.termOf(x)
	if k == types.Bool {
		b := i.termOf(y)
		switch op {
		case token.EQL:
			return mkScalar(ts.or(ts.and(a, b), ts.and(ts.not(a), ts.not(b))), types.Bool)
		case token.NEQ:
			return mkScalar(ts.or(ts.and(a, ts.not(b)), ts.and(ts.not(a), b)), types.Bool)
		case token.AND, token.LAND:
			return mkScalar(ts.and(a, b), types.Bool)
		case token.OR, token.LOR:
			return mkScalar(ts.or(a, b), types.Bool)
		}
		panic(fmt.Sprintf("symBinop: bool op %s", op))
	}
	w, signed := kindWidth(k)
	if op == token.SHL || op == token.SHR {
		ky := kindOfValue(y)
		if ky == types.Invalid {
			panic(fmt.Sprintf("symBinop: shift by %T", y))
		}
		b := i.termOf(y)
		wy, sy := kindWidth(ky)
		if sy {
			if i.ps.branch(ts.cmp("bvslt", b, ts.constBV(wy, 0))) {
				panic("runtime error: negative shift amount")
			}
		}
		// clamp the shift count to w when larger, then bring to width w
		var cnt *term
		if wy > w {
			big := ts.cmp("bvuge", b, ts.constBV(wy, uint64(w)))
			cnt = ts.ite(big, ts.constBV(w, uint64(w)), ts.resize(b, w, false))
		} else {
			cnt = ts.resize(b, w, false)
		}
		switch {
		case op == token.SHL:
			return mkScalar(ts.bin("bvshl", a, cnt), k)
		case signed:
			return mkScalar(ts.bin("bvashr", a, cnt), k)
		default:
			return mkScalar(ts.bin("bvlshr", a, cnt), k)
		}
	}
	if ky := kindOfValue(y); ky != k {
		panic(fmt.Sprintf("symBinop: kind mismatch %v %s %v", k, op, ky))
	}
	b := i.termOf(y)
	sel := func(s, u string) string {
		if signed {
			return s
		}
		return u
	}
	switch op {
	case token.ADD:
		return mkScalar(ts.bin("bvadd", a, b), k)
	case token.SUB:
		return mkScalar(ts.bin("bvsub", a, b), k)
	case token.MUL:
		return mkScalar(ts.bin("bvmul", a, b), k)
	case token.QUO, token.REM:
		if i.ps.branch(ts.eq(b, ts.constBV(w, 0))) {
			panic("runtime error: integer divide by zero")
		}
		if op == token.QUO {
			return mkScalar(ts.bin(sel("bvsdiv", "bvudiv"), a, b), k)
		}
		return mkScalar(ts.bin(sel("bvsrem", "bvurem"), a, b), k)
	case token.AND:
		return mkScalar(ts.bin("bvand", a, b), k)
	case token.OR:
		return mkScalar(ts.bin("bvor", a, b), k)
	case token.XOR:
		return mkScalar(ts.bin("bvxor", a, b), k)
	case token.AND_NOT:
		return mkScalar(ts.bin("bvand", a, ts.bvnot(b)), k)
	case token.EQL:
		return mkScalar(ts.eq(a, b), types.Bool)
	case token.NEQ:
		return mkScalar(ts.not(ts.eq(a, b)), types.Bool)
	case token.LSS:
		return mkScalar(ts.cmp(sel("bvslt", "bvult"), a, b), types.Bool)
	case token.LEQ:
		return mkScalar(ts.cmp(sel("bvsle", "bvule"), a, b), types.Bool)
	case token.GTR:
		return mkScalar(ts.cmp(sel("bvsgt", "bvugt"), a, b), types.Bool)
	case token.GEQ:
		return mkScalar(ts.cmp(sel("bvsge", "bvuge"), a, b), types.Bool)
	}
	panic(fmt.Sprintf("symBinop: op %s", op))
}

func (i *interpreter) symUnop(op token.Token, x sym) value {
	ts := i.ps.ts
	switch op {
	case token.NOT:
		return mkScalar(ts.not(x.t), types.Bool)
	case token.SUB:
		return mkScalar(ts.bvneg(x.t), x.k)
	case token.XOR:
		return mkScalar(ts.bvnot(x.t), x.k)
	}
	panic(fmt.Sprintf("symUnop: %s", op))
}

// asciiByte checks (by a solver query, cached per term) that a symbolic byte is < 0x80.
func (i *interpreter) asciiByte(b sym) {
	ps := i.ps
	if ps.assumedAscii == nil {
		ps.assumedAscii = map[int]bool{}
	}
	if ps.assumedAscii[b.t.id] {
		return
	}
	c := ps.ts.cmp("bvult", b.t, ps.ts.constBV(b.t.srt, 0x80))
	if !ps.branch(c) {
		panic(pathAbort{"outside bound: non-ASCII symbolic byte reaches rune decoding"})
	}
	ps.assumedAscii[b.t.id] = true
}

// byteToRune converts a byte value to a rune value (symbolic bytes must be ASCII).
func (i *interpreter) byteToRune(b value) value {
	switch x := b.(type) {
	case uint8:
		return int32(x)
	case sym:
		i.asciiByte(x)
		return mkScalar(i.ps.ts.resize(x.t, 32, false), types.Int32)
	}
	panic(fmt.Sprintf("byteToRune: %T", b))
}

// runeToBytes converts a rune value to its UTF-8 bytes (symbolic: ASCII only).
func (i *interpreter) runeToBytes(r value) []value {
	switch x := r.(type) {
	case sym:
		ts := i.ps.ts
		w, _ := kindWidth(x.k)
		if !i.ps.branch(ts.cmp("bvult", x.t, ts.constBV(w, 0x80))) {
			// non-ASCII: concretise
			v := i.ps.concInt(x.t)
			return strBytes(string(rune(signExt(v, w))))
		}
		return []value{mkScalar(ts.resize(x.t, 8, false), types.Uint8)}
	default:
		return strBytes(string(rune(asInt64(r))))
	}
}

// symConv handles conversions whose operand is symbolic.
func (i *interpreter) symConv(t_dst, t_src types.Type, x value) value {
	ut_dst := t_dst.Underlying()
	switch x := x.(type) {
	case sstr:
		switch d := ut_dst.(type) {
		case *types.Basic:
			if d.Kind() == types.String {
				return x
			}
		case *types.Slice:
			switch d.Elem().Underlying().(*types.Basic).Kind() {
			case types.Byte:
				return append([]value{}, x.b...)
			case types.Rune:
				// UTF-8 decoding: concrete multi-byte sequences are decoded natively
				return i.decodeRunes(x)
			}
		}
	case sym:
		d, ok := ut_dst.(*types.Basic)
		if !ok {
			break
		}
		if d.Kind() == types.String {
			return mkStr(i.runeToBytes(x))
		}
		if d.Info()&types.IsInteger != 0 {
			ws, signed := kindWidth(x.k)
			_ = ws
			wd, _ := kindWidth(d.Kind())
			return mkScalar(i.ps.ts.resize(x.t, wd, signed), d.Kind())
		}
		if d.Info()&types.IsFloat != 0 {
			w, signed := kindWidth(x.k)
			v := i.ps.concInt(x.t)
			var c value
			if signed {
				c = fromConst(uint64(signExt(v, w)), x.k)
			} else {
				c = fromConst(v, x.k)
			}
			return conv(i, t_dst, t_src, c)
		}
	}
	panic(fmt.Sprintf("symConv: unsupported %s -> %s (%T)", t_src, t_dst, x))
}

func (i *interpreter) decodeRunes(x sstr) value {
	var res []value
	it := &sstrIter{i: i, s: x}
	for {
		t := it.next()
		if !t[0].(bool) {
			break
		}
		res = append(res, t[2])
	}
	return res
}

// bytesToStr converts a []byte value (possibly with symbolic elements) to a string value.
func bytesToStr(x []value) value {
	return mkStr(append([]value{}, x...))
}

// sstrIter ranges over a symbolic string yielding (index, rune).
type sstrIter struct {
	i *interpreter
	s sstr
	p int
}

func (it *sstrIter) next() tuple {
	if it.p >= len(it.s.b) {
		return tuple{false, nil, nil}
	}
	b := it.s.b[it.p]
	switch x := b.(type) {
	case sym:
		r := it.i.byteToRune(x)
		p := it.p
		it.p++
		return tuple{true, p, r}
	case uint8:
		if x < 0x80 {
			p := it.p
			it.p++
			return tuple{true, p, int32(x)}
		}
		// concrete multi-byte sequence: gather following concrete bytes
		var buf []byte
		q := it.p
		for q < len(it.s.b) && len(buf) < 4 {
			c, ok := it.s.b[q].(uint8)
			if !ok {
				break
			}
			buf = append(buf, c)
			q++
		}
		r, n := decodeRune(buf)
		p := it.p
		it.p += n
		return tuple{true, p, r}
	}
	panic("sstrIter: bad byte")
}

func decodeRune(b []byte) (rune, int) {
	for _, r := range string(b) {
		n := len(string(r))
		if r == 0xFFFD {
			return r, 1
		}
		return r, n
	}
	return 0xFFFD, 1
}

// concStr concretises a string value.
func (i *interpreter) concStr(v value) string {
	switch x := v.(type) {
	case string:
		return x
	case sstr:
		out := make([]byte, len(x.b))
		for k, b := range x.b {
			switch b := b.(type) {
			case uint8:
				out[k] = b
			case sym:
				out[k] = byte(i.ps.concInt(b.t))
			}
		}
		return string(out)
	}
	panic(fmt.Sprintf("concStr: %T", v))
}

// concIntVal concretises an integer value to int64.
func (i *interpreter) concIntVal(v value) int64 {
	if s, ok := v.(sym); ok {
		w, signed := kindWidth(s.k)
		u := i.ps.concInt(s.t)
		if signed {
			return signExt(u, w)
		}
		return int64(u)
	}
	return asInt64(v)
}

// concBool decides a boolean value.
func (i *interpreter) concBool(v value) bool {
	if s, ok := v.(sym); ok {
		return i.ps.branch(s.t)
	}
	return v.(bool)
}

// concValue concretises any scalar or string value, leaving others untouched.
func (i *interpreter) concValue(v value) value {
	switch x := v.(type) {
	case sstr:
		return i.concStr(x)
	case sym:
		if x.k == types.Bool {
			return i.ps.branch(x.t)
		}
		u := i.ps.concInt(x.t)
		return fromConst(u, x.k)
	}
	return v
}
