package interp

// Shared-state write tracking for C19: before a load the harness declares what is shared
// (all package-level variables plus the given roots); every store, map update, delete,
// in-place append or copy that hits one of those locations while no mutex is held is
// recorded. Two loads share no synchronisation with each other, so a load that writes a
// shared location without a lock races with a concurrent load doing the same.

import (
	"fmt"
	"go/types"
	"sort"
	"strings"

	"golang.org/x/tools/go/ssa"
)

type tracker struct {
	cells  map[*value]string
	maps   map[*omap]string
	writes []string
	seen   map[string]bool
	ignore map[string]bool
}

func (t *tracker) addCell(p *value, path string) bool {
	if p == nil {
		return false
	}
	if _, ok := t.cells[p]; ok {
		return false
	}
	t.cells[p] = path
	return true
}

func (t *tracker) walk(v value, path string, depth int) {
	if depth > 80 {
		return
	}
	switch x := v.(type) {
	case iface:
		if x.t != nil {
			t.walk(x.v, path, depth+1)
		}
	case *value:
		if t.addCell(x, path) {
			t.walk(*x, path, depth+1)
		}
	case *omap:
		if x == nil {
			return
		}
		if _, ok := t.maps[x]; ok {
			return
		}
		t.maps[x] = path
		for _, e := range x.live() {
			t.walk(e.val, path+"["+toString(e.key)+"]", depth+1)
		}
	case []value:
		full := x[:cap(x)]
		for k := range full {
			if t.addCell(&full[k], fmt.Sprintf("%s[%d]", path, k)) && k < len(x) {
				t.walk(full[k], fmt.Sprintf("%s[%d]", path, k), depth+1)
			}
		}
	case array:
		for k := range x {
			if t.addCell(&x[k], fmt.Sprintf("%s[%d]", path, k)) {
				t.walk(x[k], fmt.Sprintf("%s[%d]", path, k), depth+1)
			}
		}
	case structure:
		for k := range x {
			if t.addCell(&x[k], fmt.Sprintf("%s.f%d", path, k)) {
				t.walk(x[k], fmt.Sprintf("%s.f%d", path, k), depth+1)
			}
		}
	case *closure:
		if x != nil {
			for k, e := range x.Env {
				t.walk(e, fmt.Sprintf("%s.env%d", path, k), depth+1)
			}
		}
	}
}

func (i *interpreter) noteWrite(p *value) {
	t := i.ps.track
	if t == nil || i.ps.lockDepth > 0 {
		return
	}
	if path, ok := t.cells[p]; ok {
		t.record(path)
	}
}

func (i *interpreter) noteMapWrite(m *omap) {
	t := i.ps.track
	if t == nil || i.ps.lockDepth > 0 || m == nil {
		return
	}
	if path, ok := t.maps[m]; ok {
		t.record("map " + path)
	}
}

func (t *tracker) record(path string) {
	if !t.seen[path] {
		t.seen[path] = true
		t.writes = append(t.writes, path)
	}
}

func init() {
	V := func(name string, f externalFn) { vrtIntrinsics[name] = f }
	V("vrtTrackShared", func(fr *frame, a []value) value {
		t := &tracker{cells: map[*value]string{}, maps: map[*omap]string{}, seen: map[string]bool{}}
		i := fr.i
		// globals are allocated lazily: materialise every package-level variable of compose-go first
		for _, pk := range i.prog.AllPackages() {
			if pk.Pkg == nil || !strings.Contains(pk.Pkg.Path(), "compose-spec/compose-go") {
				continue
			}
			for _, m := range pk.Members {
				if g, ok := m.(*ssa.Global); ok {
					i.globalCell(g)
				}
			}
		}
		var names []string
		byName := map[string]*value{}
		for g, cell := range i.globals {
			if g.Pkg == nil {
				continue
			}
			n := g.Pkg.Pkg.Path() + "." + g.Name()
			names = append(names, n)
			byName[n] = cell
		}
		sort.Strings(names)
		for _, n := range names {
			t.addCell(byName[n], n)
			t.walk(*byName[n], n, 0)
		}
		for k, r := range a[0].([]value) {
			t.walk(r, fmt.Sprintf("arg%d", k), 0)
		}
		i.ps.track = t
		return nil
	})
	// vrtSharedWithLibrary(x) string: "" or the path of a library-held location (package-level variable, sync.Pool
	// or sync.Map content) that x can reach as well: a value handed to a caller must not stay aliased by the library.
	V("vrtSharedWithLibrary", func(fr *frame, a []value) value {
		t := &tracker{cells: map[*value]string{}, maps: map[*omap]string{}, seen: map[string]bool{}}
		i := fr.i
		var names []string
		byName := map[string]*value{}
		for g, cell := range i.globals {
			if g.Pkg == nil || !strings.Contains(g.Pkg.Pkg.Path(), "compose-spec/compose-go") {
				continue
			}
			n := g.Pkg.Pkg.Path() + "." + g.Name()
			names = append(names, n)
			byName[n] = cell
		}
		sort.Strings(names)
		for _, n := range names {
			t.walk(*byName[n], n, 0)
		}
		if s := i.ps.sched; s != nil {
			k := 0
			for _, l := range s.pools {
				for _, v := range l {
					t.walk(v, fmt.Sprintf("sync.Pool#%d", k), 0)
					k++
				}
			}
			for _, m := range s.smaps {
				t.walk(m, fmt.Sprintf("sync.Map#%d", k), 0)
				k++
			}
		}
		// now walk x and look for a location already owned by the library
		found := ""
		seen := map[*value]bool{}
		var look func(v value, depth int)
		look = func(v value, depth int) {
			if found != "" || depth > 80 {
				return
			}
			switch x := v.(type) {
			case iface:
				if x.t != nil {
					look(x.v, depth+1)
				}
			case *value:
				if x == nil || seen[x] {
					return
				}
				seen[x] = true
				if p, ok := t.cells[x]; ok {
					found = p
					return
				}
				look(*x, depth+1)
			case *omap:
				if x == nil {
					return
				}
				if p, ok := t.maps[x]; ok {
					found = "map " + p
					return
				}
				for _, e := range x.live() {
					look(e.val, depth+1)
				}
			case []value:
				full := x[:cap(x)]
				for k := range full {
					if p, ok := t.cells[&full[k]]; ok {
						found = p
						return
					}
					if k < len(x) {
						look(full[k], depth+1)
					}
				}
			case array:
				for k := range x {
					look(x[k], depth+1)
				}
			case structure:
				for k := range x {
					look(x[k], depth+1)
				}
			}
		}
		look(a[0], 0)
		return found
	})
	V("vrtTrackReportAll", func(fr *frame, a []value) value {
		t := fr.i.ps.track
		fr.i.ps.track = nil
		if t == nil {
			return []value(nil)
		}
		w := append([]string{}, t.writes...)
		sort.Strings(w)
		return valStrs(w)
	})
	V("vrtReport", func(fr *frame, a []value) value {
		// records a violation candidate without ending the path
		site := ""
		if fr.caller != nil {
			site = fr.caller.fn.String()
		}
		fr.i.ps.violate(a[0].(string), site, "", fr.i.modelOrNil())
		return nil
	})
	V("vrtTrackReport", func(fr *frame, a []value) value {
		t := fr.i.ps.track
		fr.i.ps.track = nil
		if t == nil || len(t.writes) == 0 {
			return ""
		}
		w := append([]string{}, t.writes...)
		sort.Strings(w)
		return w[0]
	})
	_ = types.Typ
}
