package interp

import (
	"go/types"
	"reflect"
	"strings"
)

func isZero(t types.Type, v value) bool {
	switch u := t.Underlying().(type) {
	case *types.Basic:
		return reflect.ValueOf(v).IsZero()
	case *types.Pointer:
		return v.(*value) == nil
	case *types.Map:
		switch m := v.(type) {
		case *omap:
			return m.len() == 0
		}
	case *types.Slice:
		return len(v.([]value)) == 0
	case *types.Struct:
		s := v.(structure)
		for i := 0; i < u.NumFields(); i++ {
			if !isZero(u.Field(i).Type(), s[i]) {
				return false
			}
		}
		return true
	case *types.Interface:
		return v.(iface).t == nil
	}
	return false
}

func structToMap(t types.Type, v value) value {
	st := t.Underlying().(*types.Struct)
	s := v.(structure)
	out := makeMap(types.Typ[types.String], 0).(*omap)
	for i := 0; i < st.NumFields(); i++ {
		f := st.Field(i)
		if !f.Exported() {
			continue
		}
		tag := reflect.StructTag(st.Tag(i)).Get("yaml")
		name, opts, _ := strings.Cut(tag, ",")
		if name == "-" {
			continue
		}
		if name == "" {
			name = f.Name()
		}
		if strings.Contains(opts, "omitempty") && isZero(f.Type(), s[i]) {
			continue
		}
		out.insert(nil, name, toAny(f.Type(), s[i]))
	}
	return out
}

func toAny(t types.Type, v value) value {
	switch u := t.Underlying().(type) {
	case *types.Struct:
		return iface{t: types.NewMap(types.Typ[types.String], types.NewInterfaceType(nil, nil)), v: structToMap(t, v)}
	case *types.Pointer:
		p := v.(*value)
		if p == nil {
			return iface{}
		}
		if _, ok := u.Elem().Underlying().(*types.Struct); ok {
			return toAny(u.Elem(), *p)
		}
		return iface{t: t, v: v}
	default:
		return iface{t: t, v: v}
	}
}

func init() {
	externals["github.com/compose-spec/compose-go/v2/transform.encode"] = func(fr *frame, a []value) value {
		x := a[0].(iface)
		return tuple{structToMap(x.t, x.v), iface{}}
	}
}
