package interp

// Native oracles: schema.Validate is answered by a helper process built from /repo's
// current tree; the engine tree is concretised under the current model (leaves in
// schema-constrained positions are kept concrete by the harnesses, so the verdict is
// determined by the shape).

import (
	"bufio"
	"encoding/json"
	"fmt"
	"io"
	"os/exec"
	"sync"
)

// SchemaOracleCmd is the command line of the schema oracle helper.
var SchemaOracleCmd []string

type oracleProc struct {
	cmd *exec.Cmd
	in  io.WriteCloser
	out *bufio.Reader
}

// free list of idle helper processes (a sync.Pool would drop - and so leak - processes on every GC)
var (
	oracleMu   sync.Mutex
	oracleFree []*oracleProc
)

func getOracle() *oracleProc {
	oracleMu.Lock()
	if n := len(oracleFree); n > 0 {
		o := oracleFree[n-1]
		oracleFree = oracleFree[:n-1]
		oracleMu.Unlock()
		return o
	}
	oracleMu.Unlock()
	if len(SchemaOracleCmd) == 0 {
		return nil
	}
	cmd := exec.Command(SchemaOracleCmd[0], SchemaOracleCmd[1:]...)
	in, _ := cmd.StdinPipe()
	out, _ := cmd.StdoutPipe()
	if err := cmd.Start(); err != nil {
		return nil
	}
	return &oracleProc{cmd: cmd, in: in, out: bufio.NewReaderSize(out, 1<<20)}
}

func putOracle(o *oracleProc) {
	oracleMu.Lock()
	oracleFree = append(oracleFree, o)
	oracleMu.Unlock()
}

// discardOracle ends a helper whose pipe is in an unknown state.
func discardOracle(o *oracleProc) {
	o.in.Close()
	o.cmd.Process.Kill() //nolint:errcheck
	go o.cmd.Wait()      //nolint:errcheck
}

// toNative converts an engine value tree (map[string]any / []any / scalars) into Go values under model m.
func toNative(v value, m map[int]uint64, memo map[int]uint64) (interface{}, bool) {
	switch x := v.(type) {
	case nil:
		return nil, true
	case iface:
		if x.t == nil {
			return nil, true
		}
		return toNative(x.v, m, memo)
	case string, bool, int, int64, float64, int32, uint32, uint64, uint, int8, int16, uint8, uint16, float32:
		return x, true
	case sstr:
		b := make([]byte, len(x.b))
		for k, e := range x.b {
			switch e := e.(type) {
			case uint8:
				b[k] = e
			case sym:
				b[k] = byte(e.t.eval(m, memo))
			}
		}
		return string(b), true
	case sym:
		u := x.t.eval(m, memo)
		if x.t.srt == 0 {
			return u == 1, true
		}
		w, signed := kindWidth(x.k)
		if signed {
			return signExt(u, w), true
		}
		return u, true
	case []value:
		if x == nil {
			// a nil slice reaches the JSON-schema validator as null, not as an empty list
			return nil, true
		}
		out := make([]interface{}, len(x))
		for k, e := range x {
			n, ok := toNative(e, m, memo)
			if !ok {
				return nil, false
			}
			out[k] = n
		}
		return out, true
	case *omap:
		if x == nil {
			return nil, true
		}
		out := map[string]interface{}{}
		for _, e := range x.live() {
			kn, ok := toNative(e.key, m, memo)
			if !ok {
				return nil, false
			}
			ks, ok := kn.(string)
			if !ok {
				return nil, false
			}
			n, ok := toNative(e.val, m, memo)
			if !ok {
				return nil, false
			}
			out[ks] = n
		}
		return out, true
	}
	return nil, false
}

func init() {
	externals["github.com/compose-spec/compose-go/v2/schema.Validate"] = func(fr *frame, a []value) value {
		i := fr.i
		if !i.ps.ensureModel() {
			panic(pathAbort{"schema oracle: no model"})
		}
		doc, ok := toNative(a[0], i.ps.model, map[int]uint64{})
		if !ok {
			panic(pathAbort{"unsupported: schema oracle cannot serialise the document"})
		}
		b, err := json.Marshal(doc)
		if err != nil {
			panic(pathAbort{"unsupported: schema oracle json: " + err.Error()})
		}
		o := getOracle()
		if o == nil {
			panic(pathAbort{"unsupported: schema oracle not available"})
		}
		if _, err := o.in.Write(append(b, '\n')); err != nil {
			discardOracle(o)
			panic(pathAbort{"schema oracle write failed"})
		}
		line, err := o.out.ReadBytes('\n')
		if err != nil {
			discardOracle(o)
			panic(pathAbort{"schema oracle died"})
		}
		putOracle(o)
		var res struct {
			Ok    bool   `json:"ok"`
			Err   string `json:"err"`
			Bad   string `json:"bad"`
			Panic string `json:"panic"`
		}
		json.Unmarshal(line, &res)
		i.ps.intr["schema-oracle"]++
		switch {
		case res.Ok:
			return iface{}
		case res.Panic != "":
			panic(targetPanic{iface{t: nil, v: "schema.Validate panicked: " + res.Panic}})
		case res.Bad != "":
			panic(pathAbort{"schema oracle: bad request " + res.Bad})
		}
		return i.mkError(fr, fmt.Sprint(res.Err))
	}
}
