package interp

// One SMT solver process per worker, spoken to in SMT-LIB2 over a pipe.

import (
	"bufio"
	"fmt"
	"io"
	"os/exec"
	"strconv"
	"strings"
	"time"
)

type SolverStats struct {
	Sat, Unsat, Unknown, Errors int
	Time                        time.Duration
	Queries                     int
}

type solver struct {
	cmd   *exec.Cmd
	in    io.WriteCloser
	out   *bufio.Reader
	stats SolverStats
	log   io.Writer // optional transcript
	dead   bool
	bin    []string
	scoped bool
	paths  int
}

// SolverCmd is the command line of the SMT solver (default z3 -in).
var SolverCmd = []string{"/usr/bin/z3", "-in"}

// SolverTimeoutMs is the per-query timeout.
var SolverTimeoutMs = 20000

func newSolver() *solver {
	s := &solver{bin: SolverCmd}
	s.start()
	return s
}

func (s *solver) start() {
	s.cmd = exec.Command(s.bin[0], s.bin[1:]...)
	in, _ := s.cmd.StdinPipe()
	out, _ := s.cmd.StdoutPipe()
	s.cmd.Stderr = nil
	if err := s.cmd.Start(); err != nil {
		panic("cannot start solver: " + err.Error())
	}
	s.in = in
	s.out = bufio.NewReaderSize(out, 1<<16)
	s.dead = false
	if strings.Contains(s.bin[0], "z3") {
		s.send(fmt.Sprintf("(set-option :timeout %d)", SolverTimeoutMs))
	} else {
		s.send(fmt.Sprintf("(set-option :tlimit-per %d)", SolverTimeoutMs))
		s.send("(set-logic QF_BV)")
	}
	s.send("(set-option :print-success false)")
}

func (s *solver) close() {
	if s.cmd != nil {
		s.in.Close()
		s.cmd.Process.Kill()
		s.cmd.Wait()
		s.cmd = nil
	}
}

func (s *solver) send(line string) {
	if s.log != nil {
		fmt.Fprintln(s.log, line)
	}
	if _, err := io.WriteString(s.in, line+"\n"); err != nil {
		s.dead = true
	}
}

func (s *solver) readLine() string {
	l, err := s.out.ReadString('\n')
	if err != nil {
		s.dead = true
		return "(error \"solver died\")"
	}
	return strings.TrimSpace(l)
}

// freshScope pops the previous path's scope and opens a new one.
func (s *solver) freshScope() {
	if s.dead || s.cmd == nil {
		s.close()
		s.start()
		s.scoped = false
	}
	if s.scoped {
		s.send("(pop 1)")
	}
	s.send("(push 1)")
	s.scoped = true
	s.paths++
	if s.paths%2000 == 0 {
		// periodically restart to bound solver memory
		s.close()
		s.start()
		s.send("(push 1)")
	}
}

// reset returns the solver to an empty state.
func (s *solver) reset() {
	if s.dead {
		s.close()
		s.start()
		return
	}
	s.send("(reset)")
	if strings.Contains(s.bin[0], "z3") {
		s.send(fmt.Sprintf("(set-option :timeout %d)", SolverTimeoutMs))
	} else {
		s.send(fmt.Sprintf("(set-option :tlimit-per %d)", SolverTimeoutMs))
		s.send("(set-logic QF_BV)")
	}
}

// checkSat returns "sat", "unsat" or "unknown" (errors are unknown).
func (s *solver) checkSat() string {
	t0 := time.Now()
	s.send("(check-sat)")
	r := s.readLine()
	for r == "" {
		r = s.readLine()
	}
	s.stats.Time += time.Since(t0)
	s.stats.Queries++
	switch r {
	case "sat":
		s.stats.Sat++
	case "unsat":
		s.stats.Unsat++
	case "unknown", "timeout":
		s.stats.Unknown++
		r = "unknown"
	default:
		s.stats.Errors++
		if s.log != nil {
			fmt.Fprintln(s.log, "; ERROR: "+r)
		}
		// drain: an error leaves the solver in an unknown state for this scope
		r = "unknown"
		s.dead = true
	}
	return r
}

// getValues asks for the values of the given variables (after sat).
func (s *solver) getValues(vars []*term) map[int]uint64 {
	m := map[int]uint64{}
	if len(vars) == 0 {
		return m
	}
	var sb strings.Builder
	sb.WriteString("(get-value (")
	for _, v := range vars {
		sb.WriteString(v.name)
		sb.WriteByte(' ')
	}
	sb.WriteString("))")
	s.send(sb.String())
	// read balanced parens
	depth := 0
	var buf strings.Builder
	started := false
	for {
		l := s.readLine()
		if s.dead {
			return m
		}
		buf.WriteString(l)
		buf.WriteByte(' ')
		for _, c := range l {
			if c == '(' {
				depth++
				started = true
			} else if c == ')' {
				depth--
			}
		}
		if started && depth <= 0 {
			break
		}
	}
	txt := buf.String()
	if strings.Contains(txt, "(error") {
		s.stats.Errors++
		s.dead = true
		return m
	}
	byName := map[string]*term{}
	for _, v := range vars {
		byName[v.name] = v
	}
	// tokens: ( ( name value ) ( name value ) )
	txt = strings.NewReplacer("(", " ( ", ")", " ) ").Replace(txt)
	toks := strings.Fields(txt)
	for i := 0; i+1 < len(toks); i++ {
		v, ok := byName[toks[i]]
		if !ok {
			continue
		}
		val := toks[i+1]
		switch {
		case val == "true":
			m[int(v.val)] = 1
		case val == "false":
			m[int(v.val)] = 0
		case strings.HasPrefix(val, "#x"):
			u, _ := strconv.ParseUint(val[2:], 16, 64)
			m[int(v.val)] = u
		case strings.HasPrefix(val, "#b"):
			u, _ := strconv.ParseUint(val[2:], 2, 64)
			m[int(v.val)] = u
		case val == "(": // (_ bvN w)
			if i+3 < len(toks) && toks[i+2] == "_" && strings.HasPrefix(toks[i+3], "bv") {
				u, _ := strconv.ParseUint(toks[i+3][2:], 10, 64)
				m[int(v.val)] = u
			}
		}
	}
	return m
}
