package interp

// Heap introspection intrinsics (DESIGN §3.7): vrtPopulate fills a value of any type with
// non-zero content from go/types, vrtClone deep-copies, vrtShared reports mutable state
// reachable from two values. The native runtime implements the same algorithms by reflection.

import (
	"fmt"
	"go/types"
)

type populator struct {
	i      *interpreter
	n      int
	nslice int
	stack  map[string]int
}

func (p *populator) next() int { p.n++; return p.n }

func (p *populator) fill(t types.Type, depth int) value {
	if depth > 10 {
		return zero(t)
	}
	switch u := t.Underlying().(type) {
	case *types.Basic:
		info := u.Info()
		switch {
		case info&types.IsBoolean != 0:
			return true
		case info&types.IsInteger != 0:
			return fromConst(uint64(p.next()%7+1), u.Kind())
		case info&types.IsFloat != 0:
			if u.Kind() == types.Float32 {
				return float32(1.5)
			}
			return float64(1.5)
		case info&types.IsString != 0:
			return fmt.Sprintf("s%d", p.next())
		}
		return zero(t)
	case *types.Pointer:
		key := u.Elem().String()
		if p.stack[key] >= 1 {
			return zero(t)
		}
		p.stack[key]++
		v := p.fill(u.Elem(), depth+1)
		p.stack[key]--
		return &v
	case *types.Slice:
		key := t.String()
		if p.stack[key] >= 1 {
			return zero(t)
		}
		p.stack[key]++
		// lengths 1, 2, 3, 1, ... so that neighbouring slice fields differ in length
		p.nslice++
		out := make([]value, 1+p.nslice%3)
		for k := range out {
			out[k] = p.fill(u.Elem(), depth+1)
		}
		p.stack[key]--
		return out
	case *types.Array:
		out := make(array, u.Len())
		for k := range out {
			out[k] = p.fill(u.Elem(), depth+1)
		}
		return out
	case *types.Map:
		key := t.String()
		if p.stack[key] >= 1 {
			return zero(t)
		}
		p.stack[key]++
		m := makeMap(u.Key(), 0).(*omap)
		for k := 1; k <= 2; k++ {
			var kv value
			if b, ok := u.Key().Underlying().(*types.Basic); ok && b.Info()&types.IsString != 0 {
				kv = fmt.Sprintf("k%d", k)
			} else {
				kv = p.fill(u.Key(), depth+1)
			}
			m.insert(p.i, kv, p.fill(u.Elem(), depth+1))
		}
		p.stack[key]--
		return m
	case *types.Struct:
		out := make(structure, u.NumFields())
		for k := 0; k < u.NumFields(); k++ {
			f := u.Field(k)
			if !f.Exported() {
				out[k] = zero(f.Type())
				continue
			}
			out[k] = p.fill(f.Type(), depth+1)
		}
		return out
	case *types.Interface:
		if u.NumMethods() == 0 {
			return iface{t: types.Typ[types.String], v: fmt.Sprintf("s%d", p.next())}
		}
		return iface{}
	}
	return zero(t)
}

type sharedWalker struct {
	ptrs   map[*value]string
	maps   map[*omap]string
	slices map[*value]string
	found  string
}

// walk visits v (of static type t, may be nil when unknown) recording or checking mutable objects.
func (w *sharedWalker) walk(v value, t types.Type, path string, record bool, depth int) {
	if w.found != "" || depth > 60 {
		return
	}
	switch x := v.(type) {
	case iface:
		if x.t != nil {
			w.walk(x.v, x.t, path, record, depth+1)
		}
	case *value:
		if x == nil {
			return
		}
		if record {
			if _, seen := w.ptrs[x]; seen {
				return
			}
			w.ptrs[x] = path
		} else {
			if p, ok := w.ptrs[x]; ok {
				w.found = "pointer " + path + " == " + p
				return
			}
		}
		var et types.Type
		if t != nil {
			if pt, ok := t.Underlying().(*types.Pointer); ok {
				et = pt.Elem()
			}
		}
		w.walk(*x, et, path+".*", record, depth+1)
	case *omap:
		if x == nil {
			return
		}
		if record {
			if _, seen := w.maps[x]; seen {
				return
			}
			w.maps[x] = path
		} else if p, ok := w.maps[x]; ok {
			w.found = "map " + path + " == " + p
			return
		}
		var et types.Type
		if t != nil {
			if mt, ok := t.Underlying().(*types.Map); ok {
				et = mt.Elem()
			}
		}
		for _, e := range x.live() {
			w.walk(e.val, et, path+"["+toString(e.key)+"]", record, depth+1)
		}
	case []value:
		if len(x) == 0 {
			return
		}
		k := &x[0]
		if record {
			w.slices[k] = path
		} else if p, ok := w.slices[k]; ok {
			w.found = "slice " + path + " == " + p
			return
		}
		var et types.Type
		if t != nil {
			if st, ok := t.Underlying().(*types.Slice); ok {
				et = st.Elem()
			}
		}
		for n, e := range x {
			w.walk(e, et, fmt.Sprintf("%s[%d]", path, n), record, depth+1)
		}
	case array:
		for n, e := range x {
			w.walk(e, nil, fmt.Sprintf("%s[%d]", path, n), record, depth+1)
		}
	case structure:
		var st *types.Struct
		if t != nil {
			st, _ = t.Underlying().(*types.Struct)
		}
		for n, e := range x {
			name := fmt.Sprintf("f%d", n)
			var ft types.Type
			if st != nil && n < st.NumFields() {
				name = st.Field(n).Name()
				ft = st.Field(n).Type()
				if name == "Extensions" {
					continue // opaque extension payloads are excepted by the property
				}
			}
			w.walk(e, ft, path+"."+name, record, depth+1)
		}
	}
}

func init() {
	V := func(name string, f externalFn) { vrtIntrinsics[name] = f }
	V("vrtPopulate", func(fr *frame, a []value) value {
		x := a[0].(iface)
		pt, ok := x.t.Underlying().(*types.Pointer)
		if !ok {
			panic("vrtPopulate: need a pointer")
		}
		p := &populator{i: fr.i, stack: map[string]int{}}
		v := p.fill(pt.Elem(), 0)
		store(pt.Elem(), x.v.(*value), v)
		return nil
	})
	V("vrtClone", func(fr *frame, a []value) value {
		c := &cloner{ptrs: map[*value]*value{}, maps: map[*omap]*omap{}}
		return c.clone(a[0])
	})
	V("vrtShared", func(fr *frame, a []value) value {
		w := &sharedWalker{ptrs: map[*value]string{}, maps: map[*omap]string{}, slices: map[*value]string{}}
		w.walk(a[0], nil, "a", true, 0)
		w.walk(a[1], nil, "b", false, 0)
		return w.found
	})
}
