package interp

// Insertion-ordered maps with support for symbolic keys.  Iteration order is a
// controlled parameter of the path (see pathState.mapOrder / mapSite), never Go's
// randomised order, so that re-execution is deterministic.

import (
	"go/types"
	"sort"
)

type mentry struct {
	key     value
	val     value
	deleted bool
}

type omap struct {
	kt      types.Type
	entries []*mentry
	idx     map[interface{}]*mentry // simple (native comparable) keys
	other   int                     // number of live entries with non-simple keys
	n       int
}

func makeMap(kt types.Type, reserve int64) value {
	return &omap{kt: kt, idx: map[interface{}]*mentry{}}
}

func simpleKey(k value) bool {
	switch k.(type) {
	case string, bool, int, int8, int16, int32, int64, uint, uint8, uint16, uint32, uint64, uintptr, float32, float64, *value, *schan:
		return true
	}
	return false
}

func (m *omap) len() int {
	if m == nil {
		return 0
	}
	return m.n
}

func (m *omap) find(i *interpreter, k value) *mentry {
	if m == nil {
		return nil
	}
	if simpleKey(k) {
		if e, ok := m.idx[k]; ok {
			return e
		}
		if m.other == 0 {
			return nil
		}
		for _, e := range m.entries {
			if !e.deleted && !simpleKey(e.key) && equals(i, m.kt, e.key, k) {
				return e
			}
		}
		return nil
	}
	for _, e := range m.entries {
		if !e.deleted && equals(i, m.kt, e.key, k) {
			return e
		}
	}
	return nil
}

func (m *omap) lookup(i *interpreter, k value) (value, bool) {
	if e := m.find(i, k); e != nil {
		return e.val, true
	}
	return nil, false
}

func (m *omap) insert(i *interpreter, k, v value) {
	if m == nil {
		panic("assignment to entry in nil map")
	}
	if e := m.find(i, k); e != nil {
		e.val = v
		return
	}
	e := &mentry{key: k, val: v}
	m.entries = append(m.entries, e)
	if simpleKey(k) {
		m.idx[k] = e
	} else {
		m.other++
	}
	m.n++
}

func (m *omap) delete(i *interpreter, k value) {
	if m == nil {
		return
	}
	e := m.find(i, k)
	if e == nil {
		return
	}
	e.deleted = true
	if simpleKey(e.key) {
		delete(m.idx, e.key)
	} else {
		m.other--
	}
	m.n--
	if len(m.entries) > 16 && m.n < len(m.entries)/2 {
		live := make([]*mentry, 0, m.n)
		for _, x := range m.entries {
			if !x.deleted {
				live = append(live, x)
			}
		}
		m.entries = live
	}
}

func (m *omap) clear() {
	if m == nil {
		return
	}
	for _, e := range m.entries {
		e.deleted = true
	}
	m.entries = nil
	m.idx = map[interface{}]*mentry{}
	m.other = 0
	m.n = 0
}

// live returns the live entries in insertion order.
func (m *omap) live() []*mentry {
	if m == nil {
		return nil
	}
	out := make([]*mentry, 0, m.n)
	for _, e := range m.entries {
		if !e.deleted {
			out = append(out, e)
		}
	}
	return out
}

type omapIter struct {
	es []*mentry
	p  int
}

func (it *omapIter) next() tuple {
	for it.p < len(it.es) {
		e := it.es[it.p]
		it.p++
		if !e.deleted {
			return tuple{true, e.key, e.val}
		}
	}
	return tuple{false, nil, nil}
}

// rangeOrder returns the entries in the iteration order selected for this path.
func (m *omap) rangeOrder(i *interpreter) []*mentry {
	es := m.live()
	if len(es) < 2 || i.ps == nil {
		return es
	}
	ps := i.ps
	ps.mapSites++
	mode := ps.mapOrder
	if ps.mapSite > 0 {
		mode = 0
		if ps.mapSites == ps.mapSite {
			mode = 1
		}
	}
	switch mode {
	case 1:
		for a, b := 0, len(es)-1; a < b; a, b = a+1, b-1 {
			es[a], es[b] = es[b], es[a]
		}
	case 2:
		es = append(es[1:], es[0])
	case 3, 4:
		allStr := true
		for _, e := range es {
			if _, ok := e.key.(string); !ok {
				allStr = false
			}
		}
		if allStr {
			sort.SliceStable(es, func(a, b int) bool {
				if mode == 3 {
					return es[a].key.(string) < es[b].key.(string)
				}
				return es[a].key.(string) > es[b].key.(string)
			})
		}
	}
	return es
}
