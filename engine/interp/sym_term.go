package interp

// Terms: hash-consed SMT expressions over Bool and fixed-width bit-vectors.
// One termStore per path execution; ids are deterministic given the decision prefix.

import (
	"fmt"
	"strings"
)

type bvsort uint8 // 0 = Bool, otherwise bit width (8,16,32,64)

type term struct {
	id   int
	op   string // "var","const", SMT operator name, "zext","sext","extract","ite","not","and","or","="
	srt  bvsort
	args []*term
	val  uint64 // const value; for zext/sext: extra bits; for extract: hi<<8|lo
	name string // var name
}

type termStore struct {
	tab  map[string]*term
	all  []*term
	vars []*term
}

func newTermStore() *termStore { return &termStore{tab: map[string]*term{}} }

func mask(w bvsort) uint64 {
	if w >= 64 {
		return ^uint64(0)
	}
	return (uint64(1) << w) - 1
}

func (ts *termStore) mk(op string, srt bvsort, val uint64, name string, args ...*term) *term {
	var sb strings.Builder
	sb.WriteString(op)
	sb.WriteByte('|')
	fmt.Fprintf(&sb, "%d|%d|%s", srt, val, name)
	for _, a := range args {
		fmt.Fprintf(&sb, "|%d", a.id)
	}
	k := sb.String()
	if t, ok := ts.tab[k]; ok {
		return t
	}
	t := &term{id: len(ts.all), op: op, srt: srt, args: args, val: val, name: name}
	ts.tab[k] = t
	ts.all = append(ts.all, t)
	if op == "var" {
		ts.vars = append(ts.vars, t)
	}
	return t
}

func (ts *termStore) constBV(w bvsort, v uint64) *term { return ts.mk("const", w, v&mask(w), "") }
func (ts *termStore) constBool(b bool) *term {
	if b {
		return ts.mk("const", 0, 1, "")
	}
	return ts.mk("const", 0, 0, "")
}
func (ts *termStore) newVar(name string, w bvsort) *term {
	return ts.mk("var", w, uint64(len(ts.vars)), name)
}

func (t *term) isConst() bool { return t.op == "const" }
func (t *term) isTrue() bool  { return t.op == "const" && t.srt == 0 && t.val == 1 }
func (t *term) isFalse() bool { return t.op == "const" && t.srt == 0 && t.val == 0 }

func signExt(v uint64, w bvsort) int64 {
	if w >= 64 {
		return int64(v)
	}
	sh := 64 - uint(w)
	return int64(v<<sh) >> sh
}

func (ts *termStore) not(a *term) *term {
	if a.isConst() {
		return ts.constBool(a.val == 0)
	}
	if a.op == "not" {
		return a.args[0]
	}
	return ts.mk("not", 0, 0, "", a)
}

func (ts *termStore) and(a, b *term) *term {
	if a.isFalse() || b.isFalse() {
		return ts.constBool(false)
	}
	if a.isTrue() {
		return b
	}
	if b.isTrue() {
		return a
	}
	if a == b {
		return a
	}
	return ts.mk("and", 0, 0, "", a, b)
}

func (ts *termStore) or(a, b *term) *term {
	if a.isTrue() || b.isTrue() {
		return ts.constBool(true)
	}
	if a.isFalse() {
		return b
	}
	if b.isFalse() {
		return a
	}
	if a == b {
		return a
	}
	return ts.mk("or", 0, 0, "", a, b)
}

func (ts *termStore) ite(c, a, b *term) *term {
	if c.isTrue() {
		return a
	}
	if c.isFalse() {
		return b
	}
	if a == b {
		return a
	}
	return ts.mk("ite", a.srt, 0, "", c, a, b)
}

func (ts *termStore) eq(a, b *term) *term {
	if a == b {
		return ts.constBool(true)
	}
	if a.isConst() && b.isConst() {
		return ts.constBool(a.val == b.val)
	}
	if a.srt != b.srt {
		panic(fmt.Sprintf("eq: bvsort mismatch %d %d", a.srt, b.srt))
	}
	if a.isConst() { // canonical: const on the right
		a, b = b, a
	}
	// (ite c x y) == k with const branches folds
	if b.isConst() && a.op == "ite" && a.args[1].isConst() && a.args[2].isConst() {
		return ts.ite(a.args[0], ts.eq(a.args[1], b), ts.eq(a.args[2], b))
	}
	if b.isConst() && a.op == "zext" {
		inner := a.args[0]
		if b.val > mask(inner.srt) {
			return ts.constBool(false)
		}
		return ts.eq(inner, ts.constBV(inner.srt, b.val))
	}
	return ts.mk("=", 0, 0, "", a, b)
}

// bin builds a bit-vector binary operation with constant folding.
func (ts *termStore) bin(op string, a, b *term) *term {
	if a.srt != b.srt {
		panic(fmt.Sprintf("bin %s: bvsort mismatch %d %d", op, a.srt, b.srt))
	}
	w := a.srt
	if a.isConst() && b.isConst() {
		x, y := a.val, b.val
		var r uint64
		ok := true
		switch op {
		case "bvadd":
			r = x + y
		case "bvsub":
			r = x - y
		case "bvmul":
			r = x * y
		case "bvand":
			r = x & y
		case "bvor":
			r = x | y
		case "bvxor":
			r = x ^ y
		case "bvudiv":
			if y == 0 {
				ok = false
			} else {
				r = x / y
			}
		case "bvurem":
			if y == 0 {
				ok = false
			} else {
				r = x % y
			}
		case "bvsdiv":
			if y == 0 {
				ok = false
			} else {
				r = uint64(signExt(x, w) / signExt(y, w))
			}
		case "bvsrem":
			if y == 0 {
				ok = false
			} else {
				r = uint64(signExt(x, w) % signExt(y, w))
			}
		case "bvshl":
			if y >= uint64(w) {
				r = 0
			} else {
				r = x << y
			}
		case "bvlshr":
			if y >= uint64(w) {
				r = 0
			} else {
				r = x >> y
			}
		case "bvashr":
			if y >= uint64(w) {
				y = uint64(w) - 1
			}
			r = uint64(signExt(x, w) >> y)
		default:
			ok = false
		}
		if ok {
			return ts.constBV(w, r)
		}
	}
	switch op {
	case "bvadd", "bvor", "bvxor":
		if a.isConst() && a.val == 0 {
			return b
		}
		if b.isConst() && b.val == 0 {
			return a
		}
	case "bvsub", "bvshl", "bvlshr", "bvashr":
		if b.isConst() && b.val == 0 {
			return a
		}
	case "bvmul":
		if a.isConst() && a.val == 1 {
			return b
		}
		if b.isConst() && b.val == 1 {
			return a
		}
		if (a.isConst() && a.val == 0) || (b.isConst() && b.val == 0) {
			return ts.constBV(w, 0)
		}
	case "bvand":
		if (a.isConst() && a.val == 0) || (b.isConst() && b.val == 0) {
			return ts.constBV(w, 0)
		}
	}
	return ts.mk(op, w, 0, "", a, b)
}

// cmp builds a comparison (bvult, bvule, bvslt, bvsle, ...).
func (ts *termStore) cmp(op string, a, b *term) *term {
	if a.srt != b.srt {
		panic(fmt.Sprintf("cmp %s: bvsort mismatch %d %d", op, a.srt, b.srt))
	}
	w := a.srt
	if a.isConst() && b.isConst() {
		x, y := a.val, b.val
		sx, sy := signExt(x, w), signExt(y, w)
		switch op {
		case "bvult":
			return ts.constBool(x < y)
		case "bvule":
			return ts.constBool(x <= y)
		case "bvugt":
			return ts.constBool(x > y)
		case "bvuge":
			return ts.constBool(x >= y)
		case "bvslt":
			return ts.constBool(sx < sy)
		case "bvsle":
			return ts.constBool(sx <= sy)
		case "bvsgt":
			return ts.constBool(sx > sy)
		case "bvsge":
			return ts.constBool(sx >= sy)
		}
	}
	// comparisons of zero-extended small values with constants: narrow
	if a.op == "zext" && b.isConst() && b.val <= mask(a.args[0].srt) && (op[2] == 'u' || signExt(b.val, w) >= 0) {
		in := a.args[0]
		return ts.cmp("bvu"+op[3:], in, ts.constBV(in.srt, b.val))
	}
	if b.op == "zext" && a.isConst() && a.val <= mask(b.args[0].srt) && (op[2] == 'u' || signExt(a.val, w) >= 0) {
		in := b.args[0]
		return ts.cmp("bvu"+op[3:], ts.constBV(in.srt, a.val), in)
	}
	if a.op == "zext" && b.op == "zext" && a.args[0].srt == b.args[0].srt {
		return ts.cmp("bvu"+op[3:], a.args[0], b.args[0])
	}
	return ts.mk(op, 0, 0, "", a, b)
}

func (ts *termStore) bvnot(a *term) *term {
	if a.isConst() {
		return ts.constBV(a.srt, ^a.val)
	}
	return ts.mk("bvnot", a.srt, 0, "", a)
}
func (ts *termStore) bvneg(a *term) *term {
	if a.isConst() {
		return ts.constBV(a.srt, -a.val)
	}
	return ts.mk("bvneg", a.srt, 0, "", a)
}

// resize converts a to width w, sign- or zero-extending, or truncating.
func (ts *termStore) resize(a *term, w bvsort, signed bool) *term {
	if a.srt == w {
		return a
	}
	if a.isConst() {
		if signed {
			return ts.constBV(w, uint64(signExt(a.val, a.srt)))
		}
		return ts.constBV(w, a.val)
	}
	if a.srt < w {
		if signed {
			return ts.mk("sext", w, uint64(w-a.srt), "", a)
		}
		if a.op == "zext" {
			return ts.mk("zext", w, uint64(w-a.args[0].srt), "", a.args[0])
		}
		return ts.mk("zext", w, uint64(w-a.srt), "", a)
	}
	// truncation
	if a.op == "zext" || a.op == "sext" {
		in := a.args[0]
		if in.srt == w {
			return in
		}
		if in.srt < w {
			return ts.resize(in, w, a.op == "sext")
		}
	}
	return ts.mk("extract", w, uint64(w-1)<<8, "", a)
}

func sortName(s bvsort) string {
	if s == 0 {
		return "Bool"
	}
	return fmt.Sprintf("(_ BitVec %d)", s)
}

// smt renders the term referring to already defined sub-terms by name (t<id>).
func (t *term) smtHead() string {
	switch t.op {
	case "const":
		if t.srt == 0 {
			if t.val == 1 {
				return "true"
			}
			return "false"
		}
		return fmt.Sprintf("(_ bv%d %d)", t.val, t.srt)
	case "var":
		return t.name
	}
	return fmt.Sprintf("t%d", t.id)
}

func (t *term) smtDef() string {
	var sb strings.Builder
	switch t.op {
	case "zext":
		fmt.Fprintf(&sb, "((_ zero_extend %d) %s)", t.val, t.args[0].smtHead())
	case "sext":
		fmt.Fprintf(&sb, "((_ sign_extend %d) %s)", t.val, t.args[0].smtHead())
	case "extract":
		fmt.Fprintf(&sb, "((_ extract %d %d) %s)", t.val>>8, t.val&0xff, t.args[0].smtHead())
	default:
		sb.WriteByte('(')
		sb.WriteString(t.op)
		for _, a := range t.args {
			sb.WriteByte(' ')
			sb.WriteString(a.smtHead())
		}
		sb.WriteByte(')')
	}
	return sb.String()
}

// eval evaluates t under a model (var id -> value); missing vars are 0.
func (t *term) eval(m map[int]uint64, memo map[int]uint64) uint64 {
	switch t.op {
	case "const":
		return t.val
	case "var":
		return m[int(t.val)] & mask(orW(t.srt))
	}
	if v, ok := memo[t.id]; ok {
		return v
	}
	a := make([]uint64, len(t.args))
	for i, x := range t.args {
		a[i] = x.eval(m, memo)
	}
	var r uint64
	b2u := func(b bool) uint64 {
		if b {
			return 1
		}
		return 0
	}
	w := t.srt
	aw := bvsort(0)
	if len(t.args) > 0 {
		aw = t.args[0].srt
	}
	switch t.op {
	case "not":
		r = 1 - a[0]
	case "and":
		r = a[0] & a[1]
	case "or":
		r = a[0] | a[1]
	case "ite":
		if a[0] == 1 {
			r = a[1]
		} else {
			r = a[2]
		}
	case "=":
		r = b2u(a[0] == a[1])
	case "bvadd":
		r = a[0] + a[1]
	case "bvsub":
		r = a[0] - a[1]
	case "bvmul":
		r = a[0] * a[1]
	case "bvand":
		r = a[0] & a[1]
	case "bvor":
		r = a[0] | a[1]
	case "bvxor":
		r = a[0] ^ a[1]
	case "bvnot":
		r = ^a[0]
	case "bvneg":
		r = -a[0]
	case "bvudiv":
		if a[1] == 0 {
			r = mask(w)
		} else {
			r = a[0] / a[1]
		}
	case "bvurem":
		if a[1] == 0 {
			r = a[0]
		} else {
			r = a[0] % a[1]
		}
	case "bvsdiv":
		if a[1] == 0 {
			if signExt(a[0], w) < 0 {
				r = 1
			} else {
				r = mask(w)
			}
		} else {
			r = uint64(signExt(a[0], w) / signExt(a[1], w))
		}
	case "bvsrem":
		if a[1] == 0 {
			r = a[0]
		} else {
			r = uint64(signExt(a[0], w) % signExt(a[1], w))
		}
	case "bvshl":
		if a[1] >= uint64(w) {
			r = 0
		} else {
			r = a[0] << a[1]
		}
	case "bvlshr":
		if a[1] >= uint64(w) {
			r = 0
		} else {
			r = a[0] >> a[1]
		}
	case "bvashr":
		s := a[1]
		if s >= uint64(w) {
			s = uint64(w) - 1
		}
		r = uint64(signExt(a[0], w) >> s)
	case "bvult":
		r = b2u(a[0] < a[1])
	case "bvule":
		r = b2u(a[0] <= a[1])
	case "bvugt":
		r = b2u(a[0] > a[1])
	case "bvuge":
		r = b2u(a[0] >= a[1])
	case "bvslt":
		r = b2u(signExt(a[0], aw) < signExt(a[1], aw))
	case "bvsle":
		r = b2u(signExt(a[0], aw) <= signExt(a[1], aw))
	case "bvsgt":
		r = b2u(signExt(a[0], aw) > signExt(a[1], aw))
	case "bvsge":
		r = b2u(signExt(a[0], aw) >= signExt(a[1], aw))
	case "zext":
		r = a[0]
	case "sext":
		r = uint64(signExt(a[0], aw))
	case "extract":
		r = a[0]
	default:
		panic("eval: unknown op " + t.op)
	}
	if w != 0 {
		r &= mask(w)
	}
	memo[t.id] = r
	return r
}

func orW(s bvsort) bvsort {
	if s == 0 {
		return 1
	}
	return s
}
