// symx: solver-based bounded checking of compose-go properties by symbolic execution
// of the real code (go/ssa), see /verif/DESIGN.md.
package main

import (
	"encoding/json"
	"flag"
	"fmt"
	"os"
	"os/exec"
	"path/filepath"
	"sort"
	"strconv"
	"strings"
	"time"

	"golang.org/x/tools/go/packages"
	"golang.org/x/tools/go/ssa"
	"golang.org/x/tools/go/ssa/ssautil"

	"symx/interp"
)

// repo is the tree under test: /repo, or a snapshot of it for background runs (VERIF_REPO); the registered
// commands never set the variable.
var repo = func() string {
	if r := os.Getenv("VERIF_REPO"); r != "" {
		return r
	}
	return "/repo"
}()

const modPath = "github.com/compose-spec/compose-go/v2"

type HarnessSpec struct {
	Pkg      string         `json:"pkg"` // directory below /repo, e.g. "template"
	Fn       string         `json:"fn"`
	Quick    map[string]int `json:"quick"`
	Thorough map[string]int `json:"thorough"`
	Note     string         `json:"note"`
}

type CheckSpec struct {
	Property    string        `json:"property"`
	Harnesses   []HarnessSpec `json:"harnesses"`
	Assumptions []string      `json:"assumptions"`
}

type KnownFinding struct {
	Property string `json:"property"`
	Key      string `json:"key"` // harness + ":" + label (prefix match)
	What     string `json:"what"`
}

type nativeCase struct {
	Harness string            `json:"harness"`
	Params  map[string]int    `json:"params"`
	Inputs  []interp.InputRec `json:"inputs"`
}

type nativeResult struct {
	Idx    int      `json:"idx"`
	Status string   `json:"status"` // ok, panic, assume
	Panic  string   `json:"panic"`
	Obs    []string `json:"obs"`
	Failed []string `json:"failed"`
}

func fatal(f string, a ...interface{}) {
	fmt.Fprintf(os.Stderr, "symx: "+f+"\n", a...)
	os.Exit(2)
}

func main() {
	interp.SchemaPath = filepath.Join(repo, "schema", "compose-spec.json")
	if len(os.Args) < 2 {
		fatal("usage: symx check <ID> [--tier quick|thorough] | symx replay <dir> | symx selftest")
	}
	switch os.Args[1] {
	case "check":
		os.Exit(cmdCheck(os.Args[2:]))
	case "replay":
		os.Exit(cmdReplay(os.Args[2:]))
	case "selftest":
		os.Exit(cmdSelftest())
	default:
		fatal("unknown command %s", os.Args[1])
	}
}

func verifDir() string {
	if d := os.Getenv("VERIF_DIR"); d != "" {
		return d
	}
	return "/verif"
}

func loadChecks() map[string]CheckSpec {
	b, err := os.ReadFile(filepath.Join(verifDir(), "checks.json"))
	if err != nil {
		fatal("%v", err)
	}
	var l []CheckSpec
	if err := json.Unmarshal(b, &l); err != nil {
		fatal("checks.json: %v", err)
	}
	m := map[string]CheckSpec{}
	for _, c := range l {
		m[c.Property] = c
	}
	return m
}

func loadKnown() []KnownFinding {
	b, err := os.ReadFile(filepath.Join(verifDir(), "known_findings.json"))
	if err != nil {
		return nil
	}
	var f struct {
		Findings []KnownFinding `json:"findings"`
	}
	json.Unmarshal(b, &f)
	return f.Findings
}

// overlayFor builds the overlay (virtual path -> content) for the harness packages.
func overlayFor(pkgs []string) (map[string][]byte, map[string]string) {
	ov := map[string][]byte{}
	files := map[string]string{} // virtual -> real path (for go test -overlay)
	rt, err := os.ReadFile(filepath.Join(verifDir(), "harness", "vrt_runtime.go.txt"))
	if err != nil {
		fatal("%v", err)
	}
	for _, p := range pkgs {
		dir := filepath.Join(verifDir(), "harness", p)
		ents, _ := os.ReadDir(dir)
		pkgName := ""
		for _, e := range ents {
			if !strings.HasSuffix(e.Name(), ".go") {
				continue
			}
			b, _ := os.ReadFile(filepath.Join(dir, e.Name()))
			v := filepath.Join(repo, p, "zz_verif_"+e.Name())
			ov[v] = b
			files[v] = filepath.Join(dir, e.Name())
			if pkgName == "" {
				for _, l := range strings.Split(string(b), "\n") {
					if strings.HasPrefix(l, "package ") {
						pkgName = strings.TrimSpace(strings.TrimPrefix(l, "package "))
						break
					}
				}
			}
		}
		if pkgName == "" {
			fatal("no harness files for package %s", p)
		}
		ov[filepath.Join(repo, p, "zz_verif_rt.go")] = []byte(strings.Replace(string(rt), "package PKG", "package "+pkgName, 1))
	}
	return ov, files
}

type loaded struct {
	prog *ssa.Program
	pkgs map[string]*ssa.Package // by dir
	sh   *interp.Shared
}

func load(pkgDirs []string) (*loaded, error) {
	ov, _ := overlayFor(pkgDirs)
	var pats []string
	for _, p := range pkgDirs {
		pats = append(pats, "./"+p)
	}
	env := append(os.Environ(), "GOFLAGS=-mod=mod", "GOPROXY=off", "GOSUMDB=off", "GOTOOLCHAIN=local")
	cfg := &packages.Config{Mode: packages.LoadAllSyntax, Dir: repo, Overlay: ov, Env: env}
	pkgs, err := packages.Load(cfg, pats...)
	if err != nil {
		return nil, err
	}
	var errs []string
	packages.Visit(pkgs, nil, func(p *packages.Package) {
		for _, e := range p.Errors {
			errs = append(errs, e.Error())
		}
	})
	if len(errs) > 0 {
		return nil, fmt.Errorf("load errors: %s", strings.Join(errs, "; "))
	}
	prog, spkgs := ssautil.AllPackages(pkgs, ssa.InstantiateGenerics)
	prog.Build()
	l := &loaded{prog: prog, pkgs: map[string]*ssa.Package{}}
	for k, p := range pkgs {
		dir := strings.TrimPrefix(strings.TrimPrefix(p.PkgPath, modPath), "/")
		l.pkgs[dir] = spkgs[k]
	}
	l.sh = interp.Prepare(prog)
	if err := buildOracle(); err != nil {
		fmt.Fprintln(os.Stderr, "symx: schema oracle not built:", err)
	}
	allowed := map[string]bool{"unicode": true, "strconv": true, "context": true, "golang.org/x/sync/errgroup": true,
		"github.com/docker/go-connections/nat": true, "github.com/docker/go-units": true, "github.com/mattn/go-shellwords": true,
		"path": true, "path/filepath": true, "io": true, "io/fs": true, "os": false, "sort": true, "slices": true, "maps": true,
		"golang.org/x/exp/slices": true, "golang.org/x/exp/maps": true, "unicode/utf8": true, "math": true, "math/bits": true,
		"github.com/distribution/reference": true, "errors": false, "syscall": false, "internal/oserror": true, "time": false}
	interp.InitPolicy = func(p string) bool {
		if p == modPath+"/schema" {
			return false
		}
		if strings.HasPrefix(p, modPath) {
			return true
		}
		return allowed[p]
	}
	return l, nil
}

var oracleDir string

// buildOracle builds the native schema oracle from /repo's current tree.
func buildOracle() error {
	if oracleDir != "" {
		return nil
	}
	src, err := os.ReadFile(filepath.Join(verifDir(), "harness", "_oracle", "main.go.txt"))
	if err != nil {
		return err
	}
	dir, _ := os.MkdirTemp("", "symx-oracle-")
	oracleDir = dir
	mainf := filepath.Join(dir, "main.go")
	os.WriteFile(mainf, src, 0o644)
	ov := map[string]interface{}{"Replace": map[string]string{filepath.Join(repo, "zz_verif_schemad", "main.go"): mainf}}
	ovb, _ := json.Marshal(ov)
	ovf := filepath.Join(dir, "overlay.json")
	os.WriteFile(ovf, ovb, 0o644)
	bin := filepath.Join(dir, "schemad")
	cmd := exec.Command("go", "build", "-overlay", ovf, "-o", bin, "./zz_verif_schemad")
	cmd.Dir = repo
	cmd.Env = append(os.Environ(), "GOFLAGS=-mod=mod", "GOPROXY=off", "GOSUMDB=off", "GOTOOLCHAIN=local")
	if out, err := cmd.CombinedOutput(); err != nil {
		return fmt.Errorf("%v: %s", err, tail(string(out), 500))
	}
	interp.SchemaOracleCmd = []string{bin}
	return nil
}

type Evidence struct {
	PropertyID  string                 `json:"property_id"`
	Tier        string                 `json:"tier"`
	Seed        int                    `json:"seed"`
	Level       string                 `json:"level"`
	Coverage    map[string]interface{} `json:"coverage"`
	Assumptions []string               `json:"assumptions"`
	WallS       float64                `json:"wall_s"`
	Violations  int                    `json:"violations"`
}

func cmdCheck(args []string) int {
	fs := flag.NewFlagSet("check", flag.ExitOnError)
	tier := fs.String("tier", os.Getenv("VERIF_TIER"), "quick|thorough")
	only := fs.String("only", "", "run only this harness function")
	with := fs.String("with", "", "run only the entries that set this parameter (development aid)")
	trace := fs.Bool("trace", false, "trace engine panics")
	workers := fs.Int("workers", 0, "worker count")
	if len(args) < 1 {
		fatal("check: missing property id")
	}
	id := args[0]
	fs.Parse(args[1:])
	if *tier == "" {
		*tier = "quick"
	}
	seed, _ := strconv.Atoi(os.Getenv("VERIF_SEED"))
	checks := loadChecks()
	spec, ok := checks[id]
	if !ok {
		fatal("no check registered for %s", id)
	}
	known := loadKnown()
	t0 := time.Now()

	dirSet := map[string]bool{}
	for _, h := range spec.Harnesses {
		dirSet[h.Pkg] = true
	}
	var dirs []string
	for d := range dirSet {
		dirs = append(dirs, d)
	}
	sort.Strings(dirs)

	ev := Evidence{PropertyID: id, Tier: *tier, Seed: seed, Level: "model_checking", Coverage: map[string]interface{}{}, Assumptions: spec.Assumptions}
	evPath := filepath.Join(verifDir(), "evidence", id+".json")
	if os.Getenv("VERIF_REPO") != "" {
		// a run against a snapshot or a seeded change is not evidence about /repo
		evPath = filepath.Join(os.TempDir(), "symx-evidence-"+id+"-"+strconv.Itoa(os.Getpid())+".json")
		defer os.Remove(evPath)
	}
	writeEv := func() {
		ev.WallS = time.Since(t0).Seconds()
		b, _ := json.MarshalIndent(ev, "", " ")
		os.MkdirAll(filepath.Dir(evPath), 0o755)
		os.WriteFile(evPath, b, 0o644)
	}

	l, err := load(dirs)
	if err != nil {
		// The harness no longer compiles against the tree: inconclusive, not an alarm.
		fmt.Printf("INCONCLUSIVE property=%s harness does not load against the current tree: %v\n", id, err)
		ev.Coverage["states"] = 0
		ev.Coverage["transitions"] = 0
		ev.Coverage["traces_validated_against_impl"] = 0
		ev.Coverage["samples"] = []interface{}{"load failure: " + err.Error()}
		ev.Coverage["undecided"] = 1
		ev.Coverage["evaluations"] = 1
		ev.Coverage["distinct_nontrivial"] = 0
		writeEv()
		return 0
	}

	scratch, _ := os.MkdirTemp("", "symx-")
	defer os.RemoveAll(scratch)
	defer func() {
		if oracleDir != "" {
			os.RemoveAll(oracleDir)
		}
		os.RemoveAll(interp.VRoot)
	}()

	totalPaths, totalDecs, totalUndec, totalUnexpl, validated, mismatches := 0, int64(0), 0, 0, 0, 0
	var samples []interface{}
	var harnessCov []map[string]interface{}
	funcs := map[string]bool{}
	intr := map[string]int{}
	var solver interp.SolverStats
	exit := 0
	nviol := 0
	knownSeen := []string{}
	replayN := 0

	for _, h := range spec.Harnesses {
		if *only != "" && h.Fn != *only {
			continue
		}
		params := h.Quick
		if *tier == "thorough" && h.Thorough != nil {
			params = h.Thorough
		}
		if params == nil {
			continue // harness entry not part of this tier
		}
		if _, has := params[*with]; *with != "" && !has {
			continue
		}
		interp.Params = map[string]int{}
		for k, v := range params {
			interp.Params[k] = v
		}
		cfg := interp.Config{Workers: *workers, Samples: 24, Seed: int64(seed), Trace: *trace}
		if v, ok := params["timeout_s"]; ok {
			cfg.Deadline = time.Now().Add(time.Duration(v) * time.Second)
		}
		if v, ok := params["max_paths"]; ok {
			cfg.MaxPaths = v
		}
		if v, ok := params["max_steps"]; ok {
			cfg.MaxSteps = int64(v)
		}
		if v, ok := params["samples"]; ok {
			cfg.Samples = v
		}
		if v, ok := params["workers"]; ok && *workers == 0 {
			cfg.Workers = v
		}
		pkg := l.pkgs[h.Pkg]
		if pkg == nil {
			fatal("package %s not loaded", h.Pkg)
		}
		rep := interp.Explore(l.sh, pkg, h.Fn, cfg)
		totalPaths += rep.Paths
		totalDecs += rep.Decisions
		totalUndec += rep.Undecided
		totalUnexpl += rep.Unexplored
		for f := range rep.Funcs {
			funcs[f] = true
		}
		for k, n := range rep.Intrinsics {
			intr[k] += n
		}
		solver.Sat += rep.Solver.Sat
		solver.Unsat += rep.Solver.Unsat
		solver.Unknown += rep.Solver.Unknown
		solver.Errors += rep.Solver.Errors
		solver.Queries += rep.Solver.Queries
		solver.Time += rep.Solver.Time

		hc := map[string]interface{}{"harness": rep.Harness, "params": params, "paths": rep.Paths, "pruned": rep.Pruned,
			"undecided": rep.Undecided, "unexplored": rep.Unexplored, "decisions": rep.Decisions, "max_decisions_on_a_path": rep.MaxDecs,
			"ssa_instructions": rep.Steps, "wall_s": rep.Wall.Seconds(), "cover_goals": rep.Covers, "violation_candidates": len(rep.Violations)}
		if len(rep.Undec) > 0 {
			hc["undecided_reasons"] = rep.Undec
		}

		// translator validation: run the sampled paths natively and compare observations
		if len(rep.Samples) > 0 && params["no_native_validation"] == 1 {
			hc["native_validation"] = "skipped: the native twin of this harness is a different program (concurrent loads under the race detector)"
			for k, s := range rep.Samples {
				if k < 3 {
					samples = append(samples, map[string]interface{}{"harness": h.Fn, "decisions": s.Decs, "inputs": s.Inputs, "observed": s.Obs, "status": s.Status})
				}
			}
		} else if len(rep.Samples) > 0 {
			var cases []nativeCase
			for _, s := range rep.Samples {
				cases = append(cases, nativeCase{Harness: h.Fn, Params: params, Inputs: s.Inputs})
			}
			res, err := runNative(scratch, h.Pkg, cases, nil)
			if err != nil {
				hc["native_validation_error"] = err.Error()
				fmt.Printf("INCONCLUSIVE property=%s harness=%s native validation could not run: %v\n", id, h.Fn, firstLine(err.Error()))
				totalUndec++
			} else {
				ok := 0
				for k, s := range rep.Samples {
					if k >= len(res) {
						break
					}
					r := res[k]
					match := true
					if s.Status == "panic" {
						match = r.Status == "panic"
					} else {
						match = r.Status == "ok" && strings.Join(r.Obs, "\n") == strings.Join(s.Obs, "\n")
					}
					if match {
						ok++
					} else {
						mismatches++
						if f := os.Getenv("SYMX_MISMATCH_FILE"); f != "" {
							os.WriteFile(f, []byte(strings.Join(s.Obs, "\n")+"\n=====\n"+strings.Join(r.Obs, "\n")+"\n"), 0o644) //nolint:errcheck
						}
						fmt.Printf("INCONCLUSIVE property=%s harness=%s engine/native mismatch on inputs %s: engine %s %v native %s %v %s\n",
							id, h.Fn, mustJSON(s.Inputs), s.Status, s.Obs, r.Status, r.Obs, firstLine(r.Panic))
					}
				}
				validated += ok
				hc["native_validated"] = ok
			}
			for k, s := range rep.Samples {
				if k < 3 {
					samples = append(samples, map[string]interface{}{"harness": h.Fn, "decisions": s.Decs, "inputs": s.Inputs, "observed": s.Obs, "status": s.Status})
				}
			}
		}

		// violations: confirm natively, then report (several candidates may share a label: the first one
		// that reproduces is reported, the others are skipped)
		doneLabel := map[string]bool{}
		pendingInconclusive := map[string]string{}
		for _, v := range rep.Violations {
			if doneLabel[v.Label] {
				continue
			}
			cases := []nativeCase{{Harness: h.Fn, Params: params, Inputs: v.Inputs}}
			// order/schedule dependent candidates: Go re-randomises map iteration per run, so the same
			// inputs are replayed several times in one native process and any reproduction counts
			tries := 12
			if t, ok := params["replay_tries"]; ok && t >= 1 {
				tries = t
			}
			if strings.HasPrefix(v.Label, "panic@") {
				tries = 3
			}
			var replayEnv []string
			if params["native_race"] == 1 {
				replayEnv = append(replayEnv, "VRT_RACE=1")
			}
			if strings.HasPrefix(v.Label, "hang@") || strings.HasPrefix(v.Label, "stack@") {
				tries = 1
			}
			if v.Label == "deadlock" {
				// a schedule-dependent hang: several short attempts, each case in its own process
				replayEnv = append(replayEnv, "VRT_TIMEOUT_S=4")
				if tries > 10 {
					tries = 10
				}
			}
			many := cases
			for k := 1; k < tries; k++ {
				many = append(many, cases[0])
			}
			res, err := runNative(scratch, h.Pkg, many, replayEnv)
			confirmed := false
			detail := ""
			for _, r := range res {
				if confirmed || err != nil {
					break
				}
				if strings.HasPrefix(v.Label, "panic@") {
					confirmed = r.Status == "panic"
					detail = firstLine(r.Panic)
				} else if v.Label == "deadlock" || strings.HasPrefix(v.Label, "hang@") || strings.HasPrefix(v.Label, "stack@") {
					confirmed = r.Status == "deadlock" || r.Status == "panic"
					detail = firstLine(r.Panic)
				} else {
					for _, f := range r.Failed {
						if f == v.Label || (strings.HasPrefix(v.Label, f+"#") && strings.HasPrefix(f, "no-unsynchronised-write")) {
							confirmed = true
						}
					}
					if r.Status == "panic" {
						detail = "native run panicked: " + firstLine(r.Panic)
					}
					if strings.HasPrefix(r.Panic, "go race detector:") {
						detail = r.Panic
					}
				}
			}
			if err != nil {
				detail = firstLine(err.Error())
			}
			key := h.Fn + ":" + v.Label
			if !confirmed {
				pendingInconclusive[v.Label] = fmt.Sprintf("INCONCLUSIVE property=%s harness=%s candidate %q did not reproduce natively (%s); inputs %s engine-observed %v", id, h.Fn, v.Label, detail, mustJSON(v.Inputs), v.Observed)
				continue
			}
			doneLabel[v.Label] = true
			delete(pendingInconclusive, v.Label)
			isKnown := false
			for _, kf := range known {
				if kf.Property == id && strings.HasPrefix(key, kf.Key) {
					isKnown = true
					fmt.Printf("KNOWN-FINDING: property=%s %s\n", id, kf.What)
					knownSeen = append(knownSeen, kf.Key)
				}
			}
			if isKnown {
				continue
			}
			replayN++
			dir := filepath.Join(verifDir(), "replays", id, fmt.Sprintf("%s-%d", *tier, replayN))
			saveReplay(dir, h, params, v, cases)
			fmt.Printf("VIOLATION property=%s replay=%s\n", id, dir)
			fmt.Printf("  harness=%s label=%s site=%s msg=%s inputs=%s native=%s\n", h.Fn, v.Label, v.Site, v.Msg, mustJSON(v.Inputs), detail)
			nviol++
			exit = 1
		}
		var pk []string
		for k := range pendingInconclusive {
			pk = append(pk, k)
		}
		sort.Strings(pk)
		for _, k := range pk {
			if !doneLabel[k] {
				fmt.Println(pendingInconclusive[k])
				totalUndec++
			}
		}
		harnessCov = append(harnessCov, hc)
		if rep.Undecided > 0 || rep.Unexplored > 0 {
			fmt.Printf("INCONCLUSIVE property=%s harness=%s undecided=%d unexplored=%d reasons=%v\n", id, h.Fn, rep.Undecided, rep.Unexplored, rep.Undec)
		}
		fmt.Printf("harness %s: paths=%d pruned=%d undecided=%d unexplored=%d decisions=%d queries=%d solver=%.1fs wall=%.1fs candidates=%d\n",
			rep.Harness, rep.Paths, rep.Pruned, rep.Undecided, rep.Unexplored, rep.Decisions, rep.Solver.Queries, rep.Solver.Time.Seconds(), rep.Wall.Seconds(), len(rep.Violations))
	}

	var flist []string
	for f := range funcs {
		if strings.Contains(f, "compose-go") && !strings.Contains(f, "Verif") && !strings.Contains(f, "vrt") {
			flist = append(flist, strings.Replace(f, modPath+"/", "", -1))
		}
	}
	sort.Strings(flist)
	if len(samples) == 0 {
		samples = append(samples, "no completed path")
	}
	ev.Coverage["states"] = totalPaths
	ev.Coverage["transitions"] = totalDecs
	ev.Coverage["traces_validated_against_impl"] = validated
	ev.Coverage["samples"] = samples
	ev.Coverage["evaluations"] = totalPaths
	ev.Coverage["distinct_nontrivial"] = totalPaths
	ev.Coverage["rule"] = "one evaluation = one fully explored symbolic path (a class of inputs with the same decisions); paths are distinct by construction (different decision sequences); every assertion on a path is discharged by the SMT solver over all inputs of the class"
	ev.Coverage["exhaustive"] = totalUndec == 0 && totalUnexpl == 0
	ev.Coverage["undecided"] = totalUndec
	ev.Coverage["unexplored_prefixes"] = totalUnexpl
	ev.Coverage["engine_native_mismatches"] = mismatches
	ev.Coverage["harnesses"] = harnessCov
	ev.Coverage["functions_encoded"] = flist
	ev.Coverage["functions_encoded_total"] = len(funcs)
	ev.Coverage["intrinsics_used"] = intr
	ev.Coverage["queries"] = map[string]int{"sat": solver.Sat, "unsat": solver.Unsat, "unknown": solver.Unknown, "error": solver.Errors, "total": solver.Queries}
	ev.Coverage["solver_time_s"] = solver.Time.Seconds()
	ev.Coverage["solver"] = strings.Join(interp.SolverCmd, " ")
	ev.Coverage["known_findings_seen"] = knownSeen
	ev.Violations = nviol
	writeEv()
	fmt.Printf("check %s tier=%s: states=%d transitions=%d validated=%d undecided=%d violations=%d wall=%.1fs\n", id, *tier, totalPaths, totalDecs, validated, totalUndec+totalUnexpl, nviol, time.Since(t0).Seconds())
	return exit
}

func mustJSON(v interface{}) string {
	b, _ := json.Marshal(v)
	return string(b)
}

func firstLine(s string) string {
	if k := strings.IndexByte(s, '\n'); k >= 0 {
		return s[:k]
	}
	return s
}

// runNative runs the cases against the real build with `go test -overlay`.
func runNative(scratch, pkgDir string, cases []nativeCase, extraEnv []string) ([]nativeResult, error) {
	ov, files := overlayFor([]string{pkgDir})
	work, _ := os.MkdirTemp(scratch, "native-")
	defer os.RemoveAll(work)
	repl := map[string]string{}
	for v, real := range files {
		repl[v] = real
	}
	rtv := filepath.Join(repo, pkgDir, "zz_verif_rt.go")
	rtReal := filepath.Join(work, "rt.go")
	// native runtime = same file with the native build of the vrt functions
	os.WriteFile(rtReal, ov[rtv], 0o644)
	repl[rtv] = rtReal
	// test driver
	tb, err := os.ReadFile(filepath.Join(verifDir(), "harness", "vrt_test.go.txt"))
	if err != nil {
		return nil, err
	}
	pkgName := ""
	for _, l := range strings.Split(string(ov[rtv]), "\n") {
		if strings.HasPrefix(l, "package ") {
			pkgName = strings.TrimSpace(strings.TrimPrefix(l, "package "))
			break
		}
	}
	// registry of harness functions in this package
	var names []string
	for v, b := range ov {
		if filepath.Dir(v) != filepath.Join(repo, pkgDir) || strings.HasSuffix(v, "zz_verif_rt.go") {
			continue
		}
		for _, l := range strings.Split(string(b), "\n") {
			if strings.HasPrefix(l, "func Verif") {
				n := strings.TrimPrefix(l, "func ")
				if k := strings.IndexByte(n, '('); k > 0 && strings.HasPrefix(n[k:], "()") {
					names = append(names, n[:k])
				}
			}
		}
	}
	sort.Strings(names)
	var reg strings.Builder
	reg.WriteString("var vrtHarnesses = map[string]func(){\n")
	for _, n := range names {
		fmt.Fprintf(&reg, "\t%q: %s,\n", n, n)
	}
	reg.WriteString("}\n")
	testSrc := strings.Replace(string(tb), "package PKG", "package "+pkgName, 1) + "\n" + reg.String()
	testReal := filepath.Join(work, "rt_test.go")
	os.WriteFile(testReal, []byte(testSrc), 0o644)
	repl[filepath.Join(repo, pkgDir, "zz_verif_rt_test.go")] = testReal
	ovb, _ := json.Marshal(map[string]interface{}{"Replace": repl})
	ovf := filepath.Join(work, "overlay.json")
	os.WriteFile(ovf, ovb, 0o644)
	cf := filepath.Join(work, "cases.json")
	cb, _ := json.Marshal(cases)
	os.WriteFile(cf, cb, 0o644)
	of := filepath.Join(work, "out.json")
	args := []string{"test", "-vet=off", "-count=1", "-timeout", "300s", "-overlay", ovf, "-run", "^TestVerifReplay$", "./" + pkgDir}
	for _, e := range extraEnv {
		if e == "VRT_RACE=1" {
			args = append([]string{"test", "-race"}, args[1:]...)
		}
	}
	cmd := exec.Command("go", args...)
	cmd.Dir = repo
	cmd.Env = append(os.Environ(), "GOFLAGS=-mod=mod", "GOPROXY=off", "GOSUMDB=off", "GOTOOLCHAIN=local", "VRT_CASES="+cf, "VRT_OUT="+of, "VRT_WORK="+work, "VRT_ROOT="+interp.VRoot)
	cmd.Env = append(cmd.Env, extraEnv...)
	out, runErr := cmd.CombinedOutput()
	b, err := os.ReadFile(of)
	if err != nil {
		return nil, fmt.Errorf("native run produced no output: %v: %s", runErr, tail(string(out), 2000))
	}
	raceSeen := strings.Contains(string(out), "WARNING: DATA RACE")
	var res []nativeResult
	defer func() {
		if raceSeen {
			for k := range res {
				res[k].Failed = append(res[k].Failed, "no-unsynchronised-write-to-shared-state")
				res[k].Panic = "go race detector: " + raceSummary(string(out))
			}
		}
	}()
	for _, l := range strings.Split(strings.TrimSpace(string(b)), "\n") {
		if l == "" {
			continue
		}
		var r nativeResult
		if err := json.Unmarshal([]byte(l), &r); err != nil {
			return nil, err
		}
		res = append(res, r)
	}
	// a case that killed the process (fatal error, stack overflow) leaves no record
	for len(res) < len(cases) {
		st := "crash"
		if strings.Contains(string(out), "all goroutines are asleep") {
			st = "deadlock"
		}
		res = append(res, nativeResult{Idx: len(res), Status: st, Panic: tail(string(out), 600)})
		if st == "crash" || st == "deadlock" {
			// remaining cases were not run; re-run them separately
			rest := cases[len(res):]
			if len(rest) > 0 {
				more, err := runNative(scratch, pkgDir, rest, extraEnv)
				if err != nil {
					return res, nil
				}
				res = append(res, more...)
			}
			break
		}
	}
	for k := range res {
		if res[k].Status == "crash" {
			res[k].Status = "panic"
		}
	}
	return res, nil
}

func raceSummary(out string) string {
	k := strings.Index(out, "WARNING: DATA RACE")
	if k < 0 {
		return ""
	}
	lines := strings.Split(out[k:], "\n")
	var keep []string
	for _, l := range lines {
		l = strings.TrimSpace(l)
		if strings.HasPrefix(l, "github.com/compose-spec") || strings.HasPrefix(l, "Write at") || strings.HasPrefix(l, "Previous") || strings.HasPrefix(l, "Read at") {
			keep = append(keep, l)
		}
		if len(keep) >= 6 {
			break
		}
	}
	return strings.Join(keep, " | ")
}

func tail(s string, n int) string {
	if len(s) > n {
		return s[len(s)-n:]
	}
	return s
}

func saveReplay(dir string, h HarnessSpec, params map[string]int, v interp.Violation, cases []nativeCase) {
	os.RemoveAll(dir)
	os.MkdirAll(dir, 0o755)
	cb, _ := json.MarshalIndent(cases, "", " ")
	os.WriteFile(filepath.Join(dir, "cases.json"), cb, 0o644)
	vb, _ := json.MarshalIndent(v, "", " ")
	os.WriteFile(filepath.Join(dir, "violation.json"), vb, 0o644)
	meta := map[string]interface{}{"pkg": h.Pkg, "fn": h.Fn, "params": params, "label": v.Label}
	mb, _ := json.MarshalIndent(meta, "", " ")
	os.WriteFile(filepath.Join(dir, "meta.json"), mb, 0o644)
	os.WriteFile(filepath.Join(dir, "cmd.sh"), []byte("#!/bin/sh\nexec /verif/bin/check replay "+dir+"\n"), 0o755)
}

func cmdReplay(args []string) int {
	if len(args) < 1 {
		fatal("replay: missing directory")
	}
	dir := args[0]
	var meta struct {
		Pkg, Fn, Label string
	}
	mb, err := os.ReadFile(filepath.Join(dir, "meta.json"))
	if err != nil {
		fatal("%v", err)
	}
	json.Unmarshal(mb, &meta)
	var cases []nativeCase
	cb, _ := os.ReadFile(filepath.Join(dir, "cases.json"))
	json.Unmarshal(cb, &cases)
	scratch, _ := os.MkdirTemp("", "symx-")
	defer os.RemoveAll(scratch)
	res, err := runNative(scratch, meta.Pkg, cases, nil)
	if err != nil {
		fmt.Println("replay failed to run:", err)
		return 2
	}
	for _, r := range res {
		fmt.Printf("native: status=%s failed=%v panic=%s obs=%v\n", r.Status, r.Failed, firstLine(r.Panic), r.Obs)
		if r.Status == "panic" && strings.HasPrefix(meta.Label, "panic@") {
			fmt.Println("REPRODUCED", meta.Label)
			return 1
		}
		for _, f := range r.Failed {
			if f == meta.Label {
				fmt.Println("REPRODUCED", meta.Label)
				return 1
			}
		}
	}
	fmt.Println("not reproduced")
	return 0
}

func cmdSelftest() int {
	// solver round trip
	out, err := exec.Command("/usr/bin/z3", "-version").CombinedOutput()
	if err != nil {
		fmt.Println("z3 not runnable:", err)
		return 1
	}
	fmt.Print("solver: ", string(out))
	// differential self-test of the string / regexp intrinsics against reference loops (harness/utils)
	if _, ok := loadChecks()["SELF"]; ok {
		if rc := cmdCheck([]string{"SELF", "--tier", "quick"}); rc != 0 {
			fmt.Println("selftest: the intrinsic self-test reported a violation: the engine must not be trusted")
			return 1
		}
	}
	return 0
}
