package template

// C07: template.Substitute against a recursive-descent reference of the Compose
// interpolation grammar (DESIGN.md appendix A.1).

type c07Err struct {
	kind   int // 1 invalid template, 2 missing required
	name   string
	reason string
}

type c07Ref struct {
	lit    int  // literal braces open inside the current operand
	sawLit bool // the template has a literal brace inside an operand
	m      func(string) (string, bool)
	errs   []c07Err
	unspec bool
}

func c07NameStart(c byte) bool {
	return c == '_' || (c >= 'a' && c <= 'z') || (c >= 'A' && c <= 'Z')
}
func c07NameChar(c byte) bool { return c07NameStart(c) || (c >= '0' && c <= '9') }

// eval evaluates s[i:] until end of string (top=true) or the balancing '}' (top=false).
// Returns the output and the index after the consumed text; closed tells whether the '}' was found.
func (r *c07Ref) eval(s string, i int, top bool) (string, int, bool) {
	out := ""
	for i < len(s) {
		c := s[i]
		if c == '}' && !top {
			if r.lit > 0 {
				// closes a literal '{' of this operand
				r.lit--
				out += "}"
				i++
				continue
			}
			return out, i + 1, true
		}
		if c == '{' && !top {
			// a literal '{' inside a braced default/replacement/message (typically after an escaped `$$`): braces
			// pair up, the group is copied verbatim
			r.lit++
			r.sawLit = true
		}
		if c != '$' {
			out += s[i : i+1]
			i++
			continue
		}
		if i+1 >= len(s) {
			out += "$"
			i++
			continue
		}
		n := s[i+1]
		switch {
		case n == '$':
			out += "$"
			i += 2
		case c07NameStart(n):
			j := i + 1
			for j < len(s) && c07NameChar(s[j]) {
				j++
			}
			v, _ := r.m(s[i+1 : j])
			out += v
			i = j
		case n == '{':
			v, j := r.braced(s, i+2)
			out += v
			i = j
		default:
			out += "$"
			i++
		}
	}
	return out, i, false
}

// braced parses after "${"; returns the value and the index after the closing '}'.
func (r *c07Ref) braced(s string, i int) (string, int) {
	if i >= len(s) || !c07NameStart(s[i]) {
		r.errs = append(r.errs, c07Err{kind: 1})
		return "", len(s)
	}
	j := i
	for j < len(s) && c07NameChar(s[j]) {
		j++
	}
	name := s[i:j]
	if j >= len(s) {
		r.errs = append(r.errs, c07Err{kind: 1})
		return "", len(s)
	}
	if s[j] == '}' {
		v, _ := r.m(name)
		return v, j + 1
	}
	colon := false
	k := j
	if s[k] == ':' {
		colon = true
		k++
	}
	if k >= len(s) || (s[k] != '-' && s[k] != '+' && s[k] != '?') {
		r.errs = append(r.errs, c07Err{kind: 1})
		return "", len(s)
	}
	op := s[k]
	// evaluate the operand with a scratch error list to know whether its errors are "used"
	saved := r.errs
	r.errs = nil
	arg, end, closed := r.eval(s, k+1, false)
	argErrs := r.errs
	r.errs = saved
	if !closed {
		if r.sawLit {
			// literal braces that do not pair up: which brace closes the substitution is not defined
			r.unspec = true
		}
		r.errs = append(r.errs, c07Err{kind: 1})
		return "", len(s)
	}
	v, set := r.m(name)
	present := set && (!colon || v != "")
	used := false
	res := ""
	switch op {
	case '-':
		if present {
			res = v
		} else {
			res, used = arg, true
		}
	case '+':
		if present {
			res, used = arg, true
		} else {
			res = ""
		}
	case '?':
		if present {
			res = v
		} else {
			used = true
			if len(argErrs) == 0 {
				r.errs = append(r.errs, c07Err{kind: 2, name: name, reason: arg})
			}
		}
	}
	if len(argErrs) > 0 {
		// operands are interpolated whether or not the operator ends up using them: "a malformed substitution is
		// an error", and a required variable missing inside an operand is reported as well
		_ = used
		r.errs = append(r.errs, argErrs...)
	}
	return res, end
}

func VerifC07Subst() {
	L := vrtParam("L", 5)
	tmpl := vrtString("tmpl", L, "${}:-+?A_1 ")
	stA := vrtChoice("stateA", 2)
	valA := ""
	if stA == 1 {
		alpha := "x$ "
		if vrtParam("RICH", 0) == 1 {
			alpha = "x${}_"
		}
		valA = vrtString("valA", vrtParam("VL", 2), alpha)
	}
	stU := vrtChoice("state_", 2)
	valU := ""
	if stU == 1 {
		valU = vrtString("val_", 1, "y$ ")
	}
	mapping := func(name string) (string, bool) {
		// two variables, each known under every name of its family: names starting with a letter of {A a Z z}
		// (A, a, A9, z0Z ...) and names starting with an underscore
		switch c07Family(name) {
		case 1:
			return valA, stA == 1
		case 2:
			return valU, stU == 1
		}
		return "", false
	}
	got, err := Substitute(tmpl, mapping)
	ref := &c07Ref{m: mapping}
	want, _, _ := ref.eval(tmpl, 0, true)
	vrtObserve("got", got)
	vrtObserve("err", err != nil)
	if ref.unspec {
		vrtCover("unspecified")
		return
	}
	if len(ref.errs) == 0 {
		vrtCover("value")
		vrtAssert("no-error-expected", err == nil)
		vrtAssert("value", got == want)
		return
	}
	vrtCover("error")
	vrtAssert("error-expected", err != nil)
	if err == nil || len(ref.errs) > 1 {
		return
	}
	e := ref.errs[0]
	switch x := err.(type) {
	case *InvalidTemplateError:
		vrtAssert("error-kind-invalid", e.kind == 1)
	case *MissingRequiredError:
		vrtAssert("error-kind-required", e.kind == 2)
		if e.kind == 2 {
			vrtAssert("error-variable", x.Variable == e.name)
			vrtAssert("error-reason", x.Reason == e.reason)
		}
	default:
		vrtAssert("error-type", false)
	}
}

// VerifC07Grammar drives the operator forms directly: pre ${NAME op inner} post, with
// symbolic operator, operand and surrounding text, so that operator semantics are
// covered at lengths the free-string harness does not reach.
func VerifC07Grammar() {
	pre := vrtString("pre", vrtParam("PRE", 1), "$A x")
	names := []string{"A", "_", "A9"}
	name := names[vrtChoice("name", 3)]
	op := vrtString("op", 2, ":-+?")
	inner := vrtString("inner", vrtParam("IL", 2), "${}:-A_x")
	postAlpha := "${}A x"
	if vrtParam("POSTALPHA", 0) == 1 {
		postAlpha = "$A}" // trailing $NAME / $$ followed by a literal brace
	}
	post := vrtString("post", vrtParam("PL", 2), postAlpha)
	tmpl := pre + "${" + name + op + inner + "}" + post
	c07Check(tmpl)
}

// VerifC07Two: two operator substitutions in one template, possibly of the same variable (each reference is
// evaluated on its own: what the first one found says nothing about the second).
func VerifC07Two() {
	names := []string{"A", "_", "z0Z9"}
	n1 := names[vrtChoice("name1", 3)]
	n2 := names[vrtChoice("name2", 3)]
	ops := []string{":-", "-", ":+", "+", ":?", "?"}
	op1 := ops[vrtChoice("op1", 6)]
	op2 := ops[vrtChoice("op2", 6)]
	d1 := vrtString("d1", vrtParam("DL", 1), "x$")
	d2 := vrtString("d2", vrtParam("DL", 1), "y$")
	sep := []string{"", " "}[vrtChoice("sep", 2)]
	nested := vrtChoice("nested", 2) == 1
	tmpl := "${" + n1 + op1 + d1 + "}" + sep + "${" + n2 + op2 + d2 + "}"
	if nested {
		tmpl = "${" + n1 + op1 + "${" + n2 + op2 + d2 + "}" + d1 + "}"
	}
	c07Check(tmpl)
}

func c07Family(name string) int {
	if name == "" {
		return 0
	}
	switch name[0] {
	case 'A', 'a', 'Z', 'z':
		return 1
	case '_':
		return 2
	}
	return 0
}

func c07Check(tmpl string) {
	nst := 2
	if vrtParam("PHRASEVALS", 0) == 1 {
		// the value of a variable may itself look like a template, and refer to its own name: it is inserted as it is
		nst = 5
	}
	stA := vrtChoice("stateA", nst)
	valA := ""
	if stA >= 2 {
		valA = []string{"${A:-y}", "$A", "${_:?e}"}[stA-2]
		stA = 1
	} else if stA == 1 {
		alpha := "x$ "
		if vrtParam("RICH", 0) == 1 {
			alpha = "x${}_"
		}
		valA = vrtString("valA", vrtParam("VL", 2), alpha)
	}
	stU := vrtChoice("state_", 2)
	valU := ""
	if stU == 1 {
		valU = vrtString("val_", 1, "y$ ")
	}
	mapping := func(name string) (string, bool) {
		// two variables, each known under every name of its family: names starting with a letter of {A a Z z}
		// (A, a, A9, z0Z ...) and names starting with an underscore
		switch c07Family(name) {
		case 1:
			return valA, stA == 1
		case 2:
			return valU, stU == 1
		}
		return "", false
	}
	got, err := Substitute(tmpl, mapping)
	ref := &c07Ref{m: mapping}
	want, _, _ := ref.eval(tmpl, 0, true)
	vrtObserve("got", got)
	vrtObserve("err", err != nil)
	if ref.unspec {
		vrtCover("unspecified")
		return
	}
	if len(ref.errs) == 0 {
		vrtCover("value")
		vrtAssert("no-error-expected", err == nil)
		vrtAssert("value", got == want)
		return
	}
	vrtCover("error")
	vrtAssert("error-expected", err != nil)
	if err == nil || len(ref.errs) > 1 {
		return
	}
	e := ref.errs[0]
	switch x := err.(type) {
	case *InvalidTemplateError:
		vrtAssert("error-kind-invalid", e.kind == 1)
	case *MissingRequiredError:
		vrtAssert("error-kind-required", e.kind == 2)
		if e.kind == 2 {
			vrtAssert("error-variable", x.Variable == e.name)
			vrtAssert("error-reason", x.Reason == e.reason)
		}
	default:
		vrtAssert("error-type", false)
	}
}

// VerifC07Tokens: templates assembled from the grammar's own vocabulary (and a non-ASCII character), checked
// against the reference evaluator like every other template.
func VerifC07Tokens() {
	// single symbols, and a few two-symbol phrases so that nested and escaped shapes are within three tokens
	dict := []string{"$", "{", "}", "${", ":-", "-", ":+", "+", ":?", "?", ":", "A", "_", "x", "$$", " ", "é", "${A", "$A",
		"${A:-", "${_:-", "${A:?", "${_+", "$${A}", "$$A}", "$${", "} ", "}x", "9", "Z", "${A9:-", "$a0z"}
	n := 1 + vrtChoice("tokens", vrtParam("TOK", 3))
	tmpl := ""
	for k := 0; k < n; k++ {
		tmpl += dict[vrtChoice("token", len(dict))]
	}
	c07Check(tmpl)
}
