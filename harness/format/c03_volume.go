package format

import (
	"unicode"

	"github.com/compose-spec/compose-go/v2/types"
)

// C03 (volumes): ParseVolume against a reference parser of [SOURCE:]TARGET[:MODE,...].

type c03Vol struct {
	ok       bool
	source   string
	target   string
	readOnly bool
	bind     bool
	selinux  string
	prop     string
	nocopy   bool
	unspec   bool
}

func c03IsLetter(c byte) bool { return (c >= 'a' && c <= 'z') || (c >= 'A' && c <= 'Z') }

// a section consisting of exactly one letter (a drive letter; any unicode letter counts)
func c03SingleLetter(cur string) bool {
	if len(cur) == 1 {
		return c03IsLetter(cur[0])
	}
	r := []rune(cur)
	return len(r) == 1 && unicode.IsLetter(r[0])
}

func c03IsPath(s string) bool {
	if s == "" {
		return false
	}
	if s[0] == '.' || s[0] == '/' || s[0] == '~' {
		return true
	}
	if len(s) >= 2 && s[0] == '\\' && s[1] == '\\' {
		return true
	}
	if len(s) >= 2 && c03IsLetter(s[0]) && s[1] == ':' {
		return true
	}
	r := []rune(s)
	return len(r) >= 2 && unicode.IsLetter(r[0]) && r[1] == ':'
}

func c03RefVolume(spec string) c03Vol {
	var r c03Vol
	if spec == "" {
		return r
	}
	// split at ':' except a ':' that follows a single leading letter of a section (windows drive)
	var parts []string
	cur := ""
	for i := 0; i < len(spec); i++ {
		c := spec[i]
		if c == ':' && !c03SingleLetter(cur) {
			parts = append(parts, cur)
			cur = ""
			continue
		}
		cur += spec[i : i+1]
	}
	parts = append(parts, cur)
	for _, p := range parts {
		if p == "" {
			return r // empty section: outside the grammar
		}
	}
	if len(parts) > 3 {
		return r
	}
	r.ok = true
	switch len(parts) {
	case 1:
		r.target = parts[0]
	default:
		r.source, r.target = parts[0], parts[1]
	}
	if len(parts) == 3 {
		opt := ""
		opts := parts[2] + ","
		for i := 0; i < len(opts); i++ {
			if opts[i] != ',' {
				opt += string(opts[i])
				continue
			}
			switch opt {
			case "ro":
				r.readOnly = true
			case "rw":
				r.readOnly = false
			case "nocopy":
				r.nocopy = true
			case "z", "Z":
				r.selinux = opt
			case "rprivate", "private", "rshared", "shared", "rslave", "slave":
				r.prop = opt
			}
			opt = ""
		}
	}
	r.bind = c03IsPath(r.source)
	return r
}

func VerifC03Volume() {
	L := vrtParam("L", 6)
	// optional concrete non-ASCII first character (symbolic bytes are 7-bit)
	atom := []string{"", "\u20ac", "\u65e5"}[vrtChoice("atom", 3)]
	spec := atom + vrtString("spec", L, ":/.~\\aCz,ro")
	c03CheckVolume(spec)
}

// VerifC03VolumeTokens: specs assembled from the grammar's vocabulary (path prefixes, separators, modes, a drive, a
// hidden file name, non-ASCII names).
func VerifC03VolumeTokens() {
	dict := []string{".", "..", "/", "~", ":", ",", "ro", "rw", "z", "Z", "nocopy", "rshared", "a", "C", "\\", ".env", "v1", "\u00e9", "\u65e5", "data",
		// phrases, so that a full source:target:options spec is within three tokens
		":/t", ":/t:"}
	n := 1 + vrtChoice("tokens", vrtParam("TOK", 4))
	spec := ""
	for k := 0; k < n; k++ {
		spec += dict[vrtChoice("token", len(dict))]
	}
	c03CheckVolume(spec)
}

func c03CheckVolume(spec string) {
	got, err := ParseVolume(spec)
	want := c03RefVolume(spec)
	vrtObserve("err", err != nil)
	vrtObserve("type", got.Type)
	vrtObserve("source", got.Source)
	vrtObserve("target", got.Target)
	if len(spec) <= 2 {
		hasColon := false
		for i := 0; i < len(spec); i++ {
			if spec[i] == ':' {
				hasColon = true
			}
		}
		if hasColon {
			// one- and two-character specs containing ':' are accepted as a bare target today; the grammar is
			// silent about "c:" (drive) and the suite pins nothing here: not asserted
			vrtCover("short-with-colon")
			return
		}
	}
	if !want.ok {
		vrtCover("reject")
		vrtAssert("rejects-non-grammar", err != nil)
		return
	}
	vrtCover("accept")
	vrtAssert("accepts-grammar", err == nil)
	if err != nil {
		return
	}
	vrtAssert("source", got.Source == want.source)
	vrtAssert("target", got.Target == want.target)
	vrtAssert("read_only", got.ReadOnly == want.readOnly)
	if want.bind {
		vrtCover("bind")
		vrtAssert("bind-iff-path", got.Type == types.VolumeTypeBind)
		vrtAssert("bind-options-present", got.Bind != nil)
		if got.Bind != nil {
			vrtAssert("bind-create-host-path", got.Bind.CreateHostPath)
		}
	} else {
		vrtCover("volume")
		vrtAssert("volume-iff-not-path", got.Type == types.VolumeTypeVolume)
	}
	if want.selinux != "" || want.prop != "" {
		vrtAssert("bind-opts", got.Bind != nil)
		if got.Bind != nil {
			vrtAssert("selinux", got.Bind.SELinux == want.selinux)
			vrtAssert("propagation", got.Bind.Propagation == want.prop)
		}
	}
	if want.nocopy {
		vrtAssert("nocopy", got.Volume != nil && got.Volume.NoCopy)
	}
}


// VerifC03VolumeOptions: the mode list of a short volume spec, options in any order.
func VerifC03VolumeOptions() {
	opts := []string{"ro", "rw", "z", "Z", "rshared", "rprivate", "slave", "nocopy", "bogus"}
	n := 1 + vrtChoice("count", 3)
	list := ""
	var ro bool
	var sel, prop string
	var nocopy bool
	for k := 0; k < n; k++ {
		o := opts[vrtChoice("opt", len(opts))]
		if k > 0 {
			list += ","
		}
		list += o
		switch o {
		case "ro":
			ro = true
		case "rw":
			ro = false
		case "z", "Z":
			sel = o
		case "rshared", "rprivate", "slave":
			prop = o
		case "nocopy":
			nocopy = true
		}
	}
	src := []string{"/src", "vol"}[vrtChoice("source", 2)]
	got, err := ParseVolume(src + ":/dst:" + list)
	vrtObserve("err", err != nil)
	vrtAssert("parses", err == nil)
	if err != nil {
		return
	}
	vrtAssert("read_only", got.ReadOnly == ro)
	if sel != "" || prop != "" {
		vrtAssert("bind-options-present", got.Bind != nil)
		if got.Bind != nil {
			vrtAssert("selinux-kept", got.Bind.SELinux == sel)
			vrtAssert("propagation-kept", got.Bind.Propagation == prop)
		}
	}
	if nocopy {
		vrtAssert("nocopy", got.Volume != nil && got.Volume.NoCopy)
	}
	if src == "/src" {
		vrtAssert("bind-create-host-path", got.Bind != nil && got.Bind.CreateHostPath)
	}
}
