package graph

import (
	"context"
	"errors"
	"fmt"

	"github.com/compose-spec/compose-go/v2/types"
)

// C13: dependency-ordered traversal under the engine scheduler (every interleaving of
// the concurrent visits within the preemption bound): once each, after dependencies,
// bounded, live, first error, project untouched; cyclic graphs refused before any visit.

// c13Dangling gives one service an extra optional dependency on a service that is not part of the project
// (disabled by a profile, say): it adds no edge and must not disturb the edges of its neighbours.
func c13Dangling(p *types.Project, which int) {
	if which == 0 {
		return
	}
	n := []string{"a", "b", "c"}[which-1]
	s := p.Services[n]
	// both a name sorting before and one sorting after the real services, so that every iteration order meets it early
	s.DependsOn["0zz"] = types.ServiceDependency{Condition: "service_started", Required: false}
	s.DependsOn["zz"] = types.ServiceDependency{Condition: "service_started", Required: false}
	p.Services[n] = s
}

func c13Project(edges [3]bool, back int) *types.Project {
	names := []string{"a", "b", "c"}
	p := &types.Project{Name: "p", Services: types.Services{}}
	for _, n := range names {
		p.Services[n] = types.ServiceConfig{Name: n, Image: "i", DependsOn: types.DependsOnConfig{}}
	}
	add := func(from, to string) {
		s := p.Services[from]
		s.DependsOn[to] = types.ServiceDependency{Condition: "service_started", Required: true}
		p.Services[from] = s
	}
	// a depends on b, a depends on c, b depends on c
	if edges[0] {
		add("a", "b")
	}
	if edges[1] {
		add("a", "c")
	}
	if edges[2] {
		add("b", "c")
	}
	switch back {
	case 1:
		add("c", "a")
	case 2:
		add("b", "b")
	case 3:
		add("c", "b")
	}
	return p
}

func VerifC13Traversal() {
	var edges [3]bool
	if vrtParam("NOEDGES", 0) == 0 {
		edges[0] = vrtChoice("a-b", 2) == 1
		edges[1] = vrtChoice("a-c", 2) == 1
		edges[2] = vrtChoice("b-c", 2) == 1
	} else {
		// at most one edge: enough independent services to reach any limit
		e := vrtChoice("oneEdge", 4)
		if e > 0 {
			edges[e-1] = true
		}
	}
	p := c13Project(edges, 0)
	// a project built by hand: the Name field of a service is unset, or differs from the key it is stored under
	switch vrtChoice("serviceNameField", vrtParam("NAMES", 1)) {
	case 1:
		for k, s := range p.Services {
			s.Name = ""
			p.Services[k] = s
		}
	case 2:
		for k, s := range p.Services {
			s.Name = "svc-" + k
			p.Services[k] = s
		}
	}
	if vrtParam("DANGLING", 0) == 1 {
		c13Dangling(p, vrtChoice("dangling", 4))
		vrtMapOrder([]int{0, 3, 4}[vrtChoice("maporder", 3)])
	}
	before := vrtClone(p).(*types.Project)
	// NOREVERSE=1: this entry only walks forward (the reverse direction is left to the other entries)
	reverse := vrtParam("NOREVERSE", 0) == 0 && vrtChoice("reverse", 2) == 1
	limit := []int{0, 1, 2, -1}[vrtChoice("limit", vrtParam("LIMITS", 3))] // 0 unbounded, 1, 2; -1 is another way to say unbounded
	if only := vrtParam("LIMITONLY", 0); only > 0 {
		// the entry with free yields only runs the limit that three independent visitors can exceed
		limit = only
	}
	failAt := []string{"", "a", "b", "c"}[vrtChoice("failAt", vrtParam("FAILS", 4))]
	var opts []func(*Options)
	if reverse {
		opts = append(opts, InReverseOrder)
	}
	if limit != 0 {
		opts = append(opts, WithMaxConcurrency(limit))
	}
	vrtSetPreemptions(vrtParam("PREEMPT", 1))
	deps := map[string][]string{"a": nil, "b": nil, "c": nil}
	dep := func(from, to string) {
		if reverse {
			deps[to] = append(deps[to], from)
		} else {
			deps[from] = append(deps[from], to)
		}
	}
	if edges[0] {
		dep("a", "b")
	}
	if edges[1] {
		dep("a", "c")
	}
	if edges[2] {
		dep("b", "c")
	}
	entered := map[string]int{}
	exited := map[string]bool{}
	running, maxRunning := 0, 0
	// the failing visitor's error: any error value, including the ones the context package uses
	boom := []error{errors.New("boom"), context.Canceled, fmt.Errorf("visit interrupted: %w", context.Canceled), context.DeadlineExceeded}[vrtChoice("errorKind", vrtParam("ERRKINDS", 1))]
	// CANCEL=1: the caller's own context is cancelled by the failing visitor just before it fails (a caller giving up
	// while a visit reports its error): the walk still returns that visitor's error
	callerCtx, cancel := context.WithCancel(context.Background())
	defer cancel()
	callerCancels := vrtParam("CANCEL", 0) == 1
	err := InDependencyOrder(callerCtx, p, func(ctx context.Context, name string, s types.ServiceConfig) error {
		vrtLock()
		entered[name]++
		running++
		if running > maxRunning {
			maxRunning = running
		}
		for _, d := range deps[name] {
			vrtAssert("dependencies-returned-before-start", exited[d])
		}
		vrtUnlock()
		vrtYield()
		vrtLock()
		running--
		exited[name] = true
		vrtUnlock()
		if name == failAt {
			if callerCancels {
				cancel()
			}
			return boom
		}
		return nil
	}, opts...)
	vrtObserve("err", err != nil)
	vrtAssert("no-visitor-running-after-return", running == 0)
	for _, n := range []string{"a", "b", "c"} {
		vrtAssert("at-most-once", entered[n] <= 1)
		vrtAssert("started-visits-returned", entered[n] == 0 || exited[n])
	}
	if limit > 0 {
		vrtAssert("concurrency-limit", maxRunning <= limit)
	}
	if failAt == "" {
		vrtAssert("nil-when-all-visited", err == nil)
		vrtAssert("all-visited-once", entered["a"] == 1 && entered["b"] == 1 && entered["c"] == 1)
	} else if entered[failAt] == 1 {
		vrtAssert("first-error-returned", err == boom)
	}
	vrtAssert("project-not-modified", vrtDeepEqual(any(p), any(before)))
}

func VerifC13Roots() {
	var edges [3]bool
	edges[0] = vrtChoice("a-b", 2) == 1
	edges[1] = vrtChoice("a-c", 2) == 1
	edges[2] = vrtChoice("b-c", 2) == 1
	p := c13Project(edges, 0)
	c13Dangling(p, vrtChoice("dangling", 4))
	vrtMapOrder([]int{0, 3, 4}[vrtChoice("maporder", 3)])
	// one to three roots, in any order the caller may list them
	rootLists := [][]string{{"a"}, {"b"}, {"c"}, {"a", "b"}, {"b", "a"}, {"a", "c"}, {"c", "a"}, {"b", "c"}, {"c", "b"}, {"a", "b", "c"}, {"c", "b", "a"}, {"b", "c", "a"},
		// a root named more than once, and a name no service has: as many (or more) entries as there are services
		{"b", "b", "b"}, {"c", "c", "c", "c"}, {"a", "zz", "zz"}}
	roots := rootLists[vrtChoice("roots", len(rootLists))]
	vrtSetPreemptions(0)
	// services that transitively depend on root (plus root itself)
	dependsOn := map[string][]string{"a": nil, "b": nil, "c": nil}
	if edges[0] {
		dependsOn["a"] = append(dependsOn["a"], "b")
	}
	if edges[1] {
		dependsOn["a"] = append(dependsOn["a"], "c")
	}
	if edges[2] {
		dependsOn["b"] = append(dependsOn["b"], "c")
	}
	var reach func(from, to string) bool
	reach = func(from, to string) bool {
		if from == to {
			return true
		}
		for _, d := range dependsOn[from] {
			if reach(d, to) {
				return true
			}
		}
		return false
	}
	visited := map[string]int{}
	ropts := []func(*Options){WithRootNodesAndDown(roots)}
	if vrtChoice("reverse", 2) == 1 {
		// the set of visited services does not depend on the direction
		ropts = append(ropts, InReverseOrder)
	}
	err := InDependencyOrder(context.Background(), p, func(ctx context.Context, name string, s types.ServiceConfig) error {
		vrtLock()
		visited[name]++
		vrtUnlock()
		return nil
	}, ropts...)
	vrtAssert("roots-walk-succeeds", err == nil)
	for _, n := range []string{"a", "b", "c"} {
		want := 0
		for _, root := range roots {
			if reach(n, root) {
				want = 1
			}
		}
		vrtObserve(n, visited[n])
		vrtAssert("visits-exactly-root-and-dependents", visited[n] == want)
	}
}

func VerifC13Cycle() {
	var edges [3]bool
	edges[0] = vrtChoice("a-b", 2) == 1
	edges[1] = vrtChoice("a-c", 2) == 1
	edges[2] = vrtChoice("b-c", 2) == 1
	back := 1 + vrtChoice("back", 3)
	cyclic := false
	switch back {
	case 1: // c -> a closes a cycle iff a reaches c
		cyclic = edges[1] || (edges[0] && edges[2])
	case 2:
		cyclic = true
	case 3: // c -> b closes a cycle iff b -> c
		cyclic = edges[2]
	}
	p := c13Project(edges, back)
	before := vrtClone(p).(*types.Project)
	visits := 0
	vrtSetPreemptions(0)
	vrtMapOrder([]int{0, 3, 4}[vrtChoice("order", 3)])
	err := InDependencyOrder(context.Background(), p, func(ctx context.Context, name string, s types.ServiceConfig) error {
		vrtLock()
		visits++
		vrtUnlock()
		return nil
	})
	vrtMapOrder(0)
	if cyclic {
		vrtAssert("cyclic-graph-refused", err != nil)
		vrtAssert("refused-before-any-visit", visits == 0)
	} else {
		vrtAssert("acyclic-graph-walked", err == nil && visits == 3)
	}
	vrtAssert("project-not-modified", vrtDeepEqual(any(p), any(before)))
}

// VerifC13Roots4: four services, every acyclic orientation of every subset of the six possible edges (so the
// alphabetical order of the names is independent of the direction of the edges), one or two roots.
func VerifC13Roots4() {
	names := []string{"a", "b", "c", "d"}
	p := &types.Project{Name: "p", Services: types.Services{}}
	for _, n := range names {
		p.Services[n] = types.ServiceConfig{Name: n, Image: "i", DependsOn: types.DependsOnConfig{}}
	}
	dependsOn := map[string][]string{}
	for i := 0; i < 4; i++ {
		for j := i + 1; j < 4; j++ {
			var from, to string
			switch vrtChoice("edge-"+names[i]+names[j], 3) {
			case 1:
				from, to = names[i], names[j]
			case 2:
				from, to = names[j], names[i]
			default:
				continue
			}
			s := p.Services[from]
			s.DependsOn[to] = types.ServiceDependency{Condition: "service_started", Required: true}
			p.Services[from] = s
			dependsOn[from] = append(dependsOn[from], to)
		}
	}
	// acyclic graphs only (cycles are VerifC13Cycle's)
	var reach func(from, to string, depth int) bool
	reach = func(from, to string, depth int) bool {
		if depth > 4 {
			return true
		}
		for _, d := range dependsOn[from] {
			if d == to || reach(d, to, depth+1) {
				return true
			}
		}
		return false
	}
	for _, n := range names {
		vrtAssume(!reach(n, n, 0))
	}
	rootLists := [][]string{{"a"}, {"b"}, {"c"}, {"d"}, {"d", "a"}, {"b", "c"}}
	roots := rootLists[vrtChoice("roots", len(rootLists))]
	vrtSetPreemptions(0)
	visited := map[string]int{}
	ropts := []func(*Options){WithRootNodesAndDown(roots)}
	if vrtChoice("reverse", 2) == 1 {
		ropts = append(ropts, InReverseOrder)
	}
	err := InDependencyOrder(context.Background(), p, func(ctx context.Context, name string, s types.ServiceConfig) error {
		vrtLock()
		visited[name]++
		vrtUnlock()
		return nil
	}, ropts...)
	vrtAssert("roots-walk-succeeds", err == nil)
	for _, n := range names {
		want := 0
		for _, root := range roots {
			if n == root || reach(n, root, 0) {
				want = 1
			}
		}
		vrtObserve(n, visited[n])
		vrtAssert("visits-exactly-root-and-dependents", visited[n] == want)
	}
}
