package loader

import "github.com/compose-spec/compose-go/v2/types"

// C16: service environment = env_file entries in order, overridden by `environment`;
// valueless keys take the project environment; env files may reference earlier files, the
// project environment and earlier lines; labels are layered the same way.
func VerifC16Env() {
	w := vrtRoot() + "/w"
	// every layer's value is a symbolic string of length 0..VL over its own alphabet, so "present but empty"
	// is one of the cases the solver decides at every layer
	L := vrtParam("VL", 1)
	var pe, v1, v2, ev string
	inPE := vrtChoice("inProjectEnv", 2) == 1
	in1 := vrtChoice("inFile1", 2) == 1
	in2 := vrtChoice("inFile2", 2) == 1
	mode := vrtChoice("environment", 3) // 0 none, 1 value (possibly empty), 2 valueless
	if inPE {
		pe = vrtString("projectEnvK", L, "ab")
	}
	if in1 {
		v1 = vrtString("file1K", L, "cd")
	}
	if in2 {
		v2 = vrtString("file2K", L, "ef")
	}
	if mode == 1 {
		ev = vrtString("environmentK", L, "gh")
	}
	va := vrtString("file1A", L, "ij")
	// the referenced project value may carry what would be an inline comment or trailing blanks if it were re-scanned
	vp := vrtString("projectEnvPEV", L, "kl")
	if vrtParam("PEVSUFFIX", 0) == 1 {
		vp += []string{"", " #x", "  ", "\t"}[vrtChoice("projectEnvPEVSuffix", 4)]
	}
	vo := vrtString("projectEnvOUTER", L, "mn")
	env := types.Mapping{"PEV": vp, "OUTER": vo}
	if inPE {
		env["K"] = pe
	}
	f1 := "A=" + va + "\n"
	if in1 {
		f1 += "K=" + v1 + "\n"
	}
	// OUTER is defined (possibly empty) in the project environment and redefined on an earlier line: the outer value wins
	f2 := "R=${A}-${PEV}-${B}\nOUTER=line\nQ=<${OUTER}>\n"
	if in2 {
		f2 = "K=" + v2 + "\nB=line\n" + f2
	} else {
		f2 = "B=line\n" + f2
	}
	// how the two files of service s are written: distinct names, or names that only differ in their leading dots,
	// slashes and directories
	layout := vrtChoice("layout", 3)
	name1 := []string{"one.env", "../.env", "../conf/a.env"}[layout]
	name2 := []string{"two.env", ".env", "./conf/a.env"}[layout]
	abs := func(n string) string {
		switch n {
		case "../.env":
			return vrtRoot() + "/.env"
		case "../conf/a.env":
			return vrtRoot() + "/conf/a.env"
		case "./conf/a.env":
			return w + "/conf/a.env"
		}
		return w + "/" + n
	}
	vrtFile(abs(name1), f1)
	vrtFile(w+"/alt.env", "A=alt\n")
	// a third file references a key that the project environment and both earlier files may define
	vrtFile(w+"/three.env", "RK=<${K}>\n")
	present2 := !in2 && vrtChoice("file2Present", 2) == 0
	present2 = !present2
	required2 := present2 || vrtChoice("file2Required", 2) == 1
	if present2 {
		vrtFile(abs(name2), f2)
	}
	var envAttr any
	switch mode {
	case 1:
		if vrtChoice("environmentSyntax", 2) == 1 {
			envAttr = map[string]any{"K": ev}
		} else {
			envAttr = []any{"K=" + ev}
		}
	case 2:
		envAttr = []any{"K"}
	}
	second := map[string]any{"path": name2, "required": required2}
	if !present2 && vrtChoice("file2Format", 2) == 1 {
		// a declared format does not make a missing file less missing
		second["format"] = "raw"
		if vrtChoice("file2RequiredImplicit", 2) == 1 && required2 {
			delete(second, "required")
		}
	}
	mk := func(first string) map[string]any {
		s := map[string]any{"image": "i", "env_file": []any{first, second, "three.env"}}
		if envAttr != nil {
			s["environment"] = envAttr
		}
		return s
	}
	doc := map[string]any{"services": map[string]any{"s": mk(name1), "t": mk("alt.env")}}
	discard := vrtParam("DISCARD", 0) == 1
	p, err := tcLoadProject(env, func(o *Options) {
		if discard {
			WithDiscardEnvFiles(o)
		}
	}, doc)
	vrtObserve("err", err != nil)
	if !present2 && required2 {
		vrtCover("missing-required")
		vrtAssert("missing-required-env-file-is-error", err != nil)
		return
	}
	vrtAssert("loads", err == nil)
	if err != nil {
		vrtObserve("msg", err.Error())
		return
	}
	if !present2 {
		vrtCover("missing-optional")
		in2 = false
	}
	for _, name := range []string{"s", "t"} {
		svc := p.Services[name]
		e := svc.Environment
		has1 := in1 && name == "s"
		// expectation for K
		var want *string
		wantPresent := true
		str := func(x string) *string { return &x }
		switch mode {
		case 1:
			want = str(ev)
		case 2:
			if inPE {
				want = str(pe)
			} else {
				want = nil
			}
		case 0:
			switch {
			case in2:
				want = str(v2)
			case has1:
				want = str(v1)
			default:
				wantPresent = false
			}
		}
		got, ok := e["K"]
		vrtAssert("K-presence", ok == wantPresent)
		if ok && wantPresent {
			vrtAssert("K-nilness", (got == nil) == (want == nil))
			if got != nil && want != nil {
				vrtObserve("K-"+name, *got)
				vrtAssert("K-layering", *got == *want)
			}
		}
		if present2 {
			a := va
			if name == "t" {
				a = "alt"
			}
			r, okr := e["R"]
			vrtAssert("reference-present", okr && r != nil)
			if okr && r != nil {
				vrtObserve("R-"+name, *r)
				vrtAssert("reference-earlier-file-project-env-earlier-line", *r == a+"-"+vp+"-line")
			}
			q, okq := e["Q"]
			vrtAssert("outer-value-beats-earlier-line", okq && q != nil && *q == "<"+vo+">")
		}
		{
			// what the third file saw of K: the latest of the earlier files that define it; the project environment
			// where no file does (which of the two wins where both define it is not stated: not asserted)
			rk, ok := e["RK"]
			vrtAssert("third-file-reference-present", ok && rk != nil)
			if ok && rk != nil {
				vrtObserve("RK-"+name, *rk)
				switch {
				case (in2 || has1) && inPE:
				case in2:
					vrtAssert("third-file-sees-latest-earlier-file", *rk == "<"+v2+">")
				case has1:
					vrtAssert("third-file-sees-latest-earlier-file", *rk == "<"+v1+">")
				case inPE:
					vrtAssert("third-file-sees-project-environment", *rk == "<"+pe+">")
				default:
					vrtAssert("third-file-sees-nothing", *rk == "<>")
				}
			}
		}
		if discard {
			vrtAssert("discard-removes-file-references", len(svc.EnvFiles) == 0)
		} else {
			vrtAssert("file-references-kept", len(svc.EnvFiles) == 3)
		}
	}
}

func VerifC16Labels() {
	w := vrtRoot() + "/w"
	L := vrtParam("VL", 1)
	va := vrtString("file1A", L, "ab")
	l1 := vrtString("file1L", L, "cd")
	l2 := vrtString("file2L", L, "ef")
	own := vrtString("labelsL", L, "gh")
	in1 := vrtChoice("inFile1", 2) == 1
	in2 := vrtChoice("inFile2", 2) == 1
	inLabels := vrtChoice("inLabels", 2) == 1
	f1, f2 := "A="+va+"\n", "R=${A}\n"
	if in1 {
		f1 += "L=" + l1 + "\n"
	}
	if in2 {
		f2 += "L=" + l2 + "\n"
	}
	vrtFile(w+"/l1.env", f1)
	present2 := vrtChoice("file2Present", 2) == 1
	if present2 {
		vrtFile(w+"/l2.env", f2)
	}
	// a third file references a key that both earlier files may define: it sees the latest definition
	redefine := vrtChoice("file2RedefinesA", 2) == 1
	if redefine && present2 {
		vrtFile(w+"/l2.env", "A=second\n"+f2)
	}
	vrtFile(w+"/l3.env", "R3=${A}\n")
	s := map[string]any{"image": "i", "label_file": []any{"l1.env", "l2.env", "l3.env"}}
	if inLabels {
		s["labels"] = map[string]any{"L": own}
	}
	p, err := tcLoadProject(nil, nil, map[string]any{"services": map[string]any{"s": s}})
	vrtObserve("err", err != nil)
	if !present2 {
		vrtAssert("missing-label-file-is-error", err != nil)
		return
	}
	vrtAssert("loads", err == nil)
	if err != nil {
		return
	}
	l := p.Services["s"].Labels
	want, set := "", true
	switch {
	case inLabels:
		want = own
	case in2:
		want = l2
	case in1:
		want = l1
	default:
		set = false
	}
	got, ok := l["L"]
	vrtObserve("L", got)
	vrtAssert("label-presence", ok == set)
	vrtAssert("label-layering", got == want)
	if redefine {
		vrtAssert("label-reference-latest-earlier-file", l["R3"] == "second")
		return
	}
	vrtAssert("label-reference-earlier-file", l["R"] == va)
	vrtAssert("label-reference-latest-earlier-file", l["R3"] == va)
}

// VerifC16Valueless: several `environment` keys written without a value, each taking its own value of the project
// environment (or staying without one), in both syntaxes, with normalization on or off, under three map orders.
func VerifC16Valueless() {
	v := "x" + vrtString("v", vrtParam("VL", 1), "ab")
	env := types.Mapping{"K1": "one" + v, "K3": "three", "K5": ""}
	var envAttr any
	if vrtChoice("syntax", 2) == 0 {
		envAttr = map[string]any{"K1": nil, "K2": nil, "K3": nil, "K4": "lit", "K5": nil}
	} else {
		envAttr = []any{"K1", "K2", "K3", "K4=lit", "K5"}
	}
	skipNorm := vrtChoice("skipNormalization", 2) == 1
	doc := map[string]any{"services": map[string]any{"s": map[string]any{"image": "i", "environment": envAttr},
		"t": map[string]any{"image": "i", "environment": map[string]any{"K3": nil, "K1": "own"}}}}
	vrtMapOrder([]int{0, 3, 4}[vrtChoice("maporder", 3)])
	p, err := tcLoadProject(env, func(o *Options) { o.SkipNormalization = skipNorm }, doc)
	vrtMapOrder(0)
	vrtObserve("err", err != nil)
	vrtAssert("loads", err == nil)
	if err != nil {
		return
	}
	e := p.Services["s"].Environment
	is := func(k, want string) bool { return e[k] != nil && *e[k] == want }
	vrtAssert("valueless-key-takes-its-own-project-value", is("K1", "one"+v) && is("K3", "three"))
	vrtAssert("valueless-key-defined-empty-in-the-project", is("K5", ""))
	vrtAssert("valueless-key-absent-from-the-project-stays-valueless", e["K2"] == nil)
	vrtAssert("valued-key-kept", is("K4", "lit"))
	et := p.Services["t"].Environment
	vrtAssert("other-service-resolved-on-its-own", et["K3"] != nil && *et["K3"] == "three" && et["K1"] != nil && *et["K1"] == "own")
}
