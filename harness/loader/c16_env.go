package loader

import "github.com/compose-spec/compose-go/v2/types"

// C16: service environment = env_file entries in order, overridden by `environment`;
// valueless keys take the project environment; env files may reference earlier files, the
// project environment and earlier lines; labels are layered the same way.
func VerifC16Env() {
	w := vrtRoot() + "/w"
	v := vrtString("v", vrtParam("VL", 1), "ab")
	inPE := vrtChoice("inProjectEnv", 2) == 1
	in1 := vrtChoice("inFile1", 2) == 1
	in2 := vrtChoice("inFile2", 2) == 1
	mode := vrtChoice("environment", 4) // 0 none, 1 value, 2 valueless, 3 empty
	env := types.Mapping{"PEV": "pev" + v, "EMPTYP": ""}
	if inPE {
		env["K"] = "pe" + v
	}
	f1 := "A=a1" + v + "\n"
	if in1 {
		f1 += "K=f1" + v + "\n"
	}
	// EMPTYP is defined (empty) in the project environment and redefined on an earlier line: the outer value wins
	f2 := "R=${A}-${PEV}-${B}\nEMPTYP=line\nQ=<${EMPTYP}>\n"
	if in2 {
		f2 = "K=f2" + v + "\nB=line\n" + f2
	} else {
		f2 = "B=line\n" + f2
	}
	vrtFile(w+"/one.env", f1)
	vrtFile(w+"/alt.env", "A=alt"+v+"\n")
	present2 := vrtChoice("file2Present", 2) == 1
	required2 := vrtChoice("file2Required", 2) == 1
	if present2 {
		vrtFile(w+"/two.env", f2)
	}
	var envAttr any
	switch mode {
	case 1:
		envAttr = []any{"K=ev" + v}
	case 2:
		envAttr = []any{"K"}
	case 3:
		envAttr = []any{"K="}
	}
	mk := func(first string) map[string]any {
		s := map[string]any{"image": "i", "env_file": []any{first, map[string]any{"path": "two.env", "required": required2}}}
		if envAttr != nil {
			s["environment"] = envAttr
		}
		return s
	}
	doc := map[string]any{"services": map[string]any{"s": mk("one.env"), "t": mk("alt.env")}}
	discard := vrtChoice("discard", 2) == 1
	p, err := tcLoadProject(env, func(o *Options) {
		if discard {
			WithDiscardEnvFiles(o)
		}
	}, doc)
	vrtObserve("err", err != nil)
	if !present2 && required2 {
		vrtCover("missing-required")
		vrtAssert("missing-required-env-file-is-error", err != nil)
		return
	}
	vrtAssert("loads", err == nil)
	if err != nil {
		vrtObserve("msg", err.Error())
		return
	}
	if !present2 {
		vrtCover("missing-optional")
		in2 = false
	}
	for _, name := range []string{"s", "t"} {
		svc := p.Services[name]
		e := svc.Environment
		has1 := in1 && name == "s"
		// expectation for K
		var want *string
		wantPresent := true
		str := func(x string) *string { return &x }
		switch mode {
		case 1:
			want = str("ev" + v)
		case 3:
			want = str("")
		case 2:
			if inPE {
				want = str("pe" + v)
			} else {
				want = nil
			}
		case 0:
			switch {
			case in2:
				want = str("f2" + v)
			case has1:
				want = str("f1" + v)
			default:
				wantPresent = false
			}
		}
		got, ok := e["K"]
		vrtAssert("K-presence", ok == wantPresent)
		if ok && wantPresent {
			vrtAssert("K-nilness", (got == nil) == (want == nil))
			if got != nil && want != nil {
				vrtObserve("K-"+name, *got)
				vrtAssert("K-layering", *got == *want)
			}
		}
		if present2 {
			a := "a1" + v
			if name == "t" {
				a = "alt" + v
			}
			r, okr := e["R"]
			vrtAssert("reference-present", okr && r != nil)
			if okr && r != nil {
				vrtObserve("R-"+name, *r)
				vrtAssert("reference-earlier-file-project-env-earlier-line", *r == a+"-pev"+v+"-line")
			}
			q, okq := e["Q"]
			vrtAssert("empty-outer-value-beats-earlier-line", okq && q != nil && *q == "<>")
		}
		if discard {
			vrtAssert("discard-removes-file-references", len(svc.EnvFiles) == 0)
		} else {
			vrtAssert("file-references-kept", len(svc.EnvFiles) == 2)
		}
	}
}

func VerifC16Labels() {
	w := vrtRoot() + "/w"
	v := vrtString("v", vrtParam("VL", 1), "ab")
	in1 := vrtChoice("inFile1", 2) == 1
	in2 := vrtChoice("inFile2", 2) == 1
	inLabels := vrtChoice("inLabels", 2) == 1
	f1, f2 := "A=a"+v+"\n", "R=${A}\n"
	if in1 {
		f1 += "L=l1" + v + "\n"
	}
	if in2 {
		f2 += "L=l2" + v + "\n"
	}
	vrtFile(w+"/l1.env", f1)
	present2 := vrtChoice("file2Present", 2) == 1
	if present2 {
		vrtFile(w+"/l2.env", f2)
	}
	s := map[string]any{"image": "i", "label_file": []any{"l1.env", "l2.env"}}
	if inLabels {
		s["labels"] = map[string]any{"L": "own" + v}
	}
	p, err := tcLoadProject(nil, nil, map[string]any{"services": map[string]any{"s": s}})
	vrtObserve("err", err != nil)
	if !present2 {
		vrtAssert("missing-label-file-is-error", err != nil)
		return
	}
	vrtAssert("loads", err == nil)
	if err != nil {
		return
	}
	l := p.Services["s"].Labels
	want, set := "", true
	switch {
	case inLabels:
		want = "own" + v
	case in2:
		want = "l2" + v
	case in1:
		want = "l1" + v
	default:
		set = false
	}
	got, ok := l["L"]
	vrtObserve("L", got)
	vrtAssert("label-presence", ok == set)
	vrtAssert("label-layering", got == want)
	vrtAssert("label-reference-earlier-file", l["R"] == "a"+v)
}
