package loader

import "github.com/compose-spec/compose-go/v2/types"

// C20: a secret value taken from the environment never appears in the YAML / JSON
// rendering unless the caller asks for secret content; a config sourced from the
// environment renders its variable, not the content; rendering does not modify the
// project. The whole "output" (engine: the encoder model's text, see TRUSTED.md) is searched
// for the canary.

func c20Contains(s, sub string) bool {
	if sub == "" {
		return true
	}
	for i := 0; i+len(sub) <= len(s); i++ {
		if s[i:i+len(sub)] == sub {
			return true
		}
	}
	return false
}

func VerifC20Secrets() {
	// the document is the main file, or arrives through an include; the secret's variable comes from the caller's
	// environment, from the env_file of the include entry or from the .env of the included project
	route := vrtChoice("viaInclude", 4)
	var canary string
	if route >= 2 {
		canary = "CNRa1" // read from a file by the real dotenv parser: a fixed value
	} else {
		canary = "CNR" + vrtStringN("canary", vrtParam("CL", 2), "ab1")
	}
	cfgCanary := "CFG" + vrtStringN("cfgCanary", 1, "ab1")
	env := types.Mapping{"SECRET_VAR": canary, "CONFIG_VAR": cfgCanary}
	if route >= 2 {
		delete(env, "SECRET_VAR")
	}
	referenced := vrtChoice("referenced", 2) == 1
	svc := map[string]any{"image": "i"}
	if referenced {
		svc["secrets"] = []any{"envsec"}
		svc["configs"] = []any{"envcfg"}
	}
	doc := map[string]any{
		"services": map[string]any{"s": svc},
		"secrets": map[string]any{
			"envsec":  map[string]any{"environment": "SECRET_VAR"},
			"filesec": map[string]any{"file": "/f", "x-note": "n"},
			"extsec":  map[string]any{"external": true},
			// every other attribute a secret may carry next to its environment source
			"extenvsec": map[string]any{"external": true, "environment": "SECRET_VAR"},
			"lblenvsec": map[string]any{"environment": "SECRET_VAR", "labels": map[string]any{"l": "1"}, "name": "custom", "x-note": "n"},
		},
		"configs": map[string]any{
			"envcfg":  map[string]any{"environment": "CONFIG_VAR"},
			"textcfg": map[string]any{"content": "plain"},
		},
	}
	if route >= 1 {
		vrtYamlFile(vrtRoot()+"/w/inc/compose.yaml", doc)
		var entry any = "inc/compose.yaml"
		switch route {
		case 2:
			vrtFile(vrtRoot()+"/w/inc/vars.env", "SECRET_VAR="+canary+"\n")
			entry = map[string]any{"path": "inc/compose.yaml", "env_file": "inc/vars.env"}
		case 3:
			vrtFile(vrtRoot()+"/w/inc/.env", "SECRET_VAR="+canary+"\n")
		}
		doc = map[string]any{"include": []any{entry}, "services": map[string]any{"own": map[string]any{"image": "i"}}}
	}
	vrtMapOrder([]int{0, 3, 4}[vrtChoice("maporder", 3)]) // insertion, sorted ascending, sorted descending
	// path resolution has nothing to do with secrets: switching it off changes nothing here
	noPaths := vrtChoice("pathResolutionOff", 2) == 1
	p, err := tcLoadProject(env, func(o *Options) {
		if noPaths {
			o.ResolvePaths = false
		}
	}, doc)
	vrtMapOrder(0)
	vrtAssert("loads", err == nil)
	if err != nil {
		return
	}
	// the value is available on the loaded project for the engine
	vrtAssert("secret-content-available", p.Secrets["envsec"].Content == canary)
	_, carrier := p.Secrets["envsec"].Extensions["x-#value"]
	vrtAssert("private-carrier-key-removed", !carrier)
	before := vrtClone(p).(*types.Project)
	// earlier renderings stay with the caller as the byte slices they were returned as
	var heldPublic [][]byte
	render := func(json, content bool) string {
		var b []byte
		var e error
		switch {
		case json && content:
			b, e = p.MarshalJSON(types.WithSecretContent)
		case json:
			b, e = p.MarshalJSON()
		case content:
			b, e = p.MarshalYAML(types.WithSecretContent)
		default:
			b, e = p.MarshalYAML()
		}
		vrtAssert("rendering-succeeds", e == nil)
		if !content {
			heldPublic = append(heldPublic, b)
		}
		if vrtEngine() {
			// the bytes handed to the caller are the caller's: nothing the library keeps (package-level variable,
			// pooled buffer) may still reach them
			if vrtSharedWithLibrary(b) != "" {
				vrtReport("rendering-aliased-by-library-state")
			}
		}
		return string(b)
	}
	if !vrtEngine() {
		// native twin of the aliasing check: a public rendering held as bytes must survive later renderings
		b1, _ := p.MarshalYAML()
		s1 := string(b1)
		j1, _ := p.MarshalJSON()
		t1 := string(j1)
		for k := 0; k < 3; k++ {
			p.MarshalYAML(types.WithSecretContent) //nolint:errcheck
			p.MarshalJSON(types.WithSecretContent) //nolint:errcheck
		}
		if string(b1) != s1 || string(j1) != t1 {
			vrtReport("rendering-aliased-by-library-state")
		}
	}
	n := 1 + vrtChoice("renderings", vrtParam("SEQ", 2))
	for k := 0; k < n; k++ {
		json := vrtChoice("json", 2) == 1
		content := vrtChoice("withContent", 2) == 1
		out := render(json, content)
		leaked := c20Contains(out, canary)
		vrtObserve("leaked", leaked)
		if content {
			vrtAssert("opt-in-reproduces-secret", leaked)
		} else {
			vrtAssert("secret-not-leaked-by-default", !leaked)
		}
		vrtAssert("config-renders-variable-not-content", !c20Contains(out, cfgCanary) && c20Contains(out, "CONFIG_VAR"))
		vrtAssert("rendering-does-not-modify-project", vrtDeepEqual(any(p), any(before)))
		for _, h := range heldPublic {
			vrtAssert("earlier-public-rendering-still-free-of-the-secret", !c20Contains(string(h), canary))
		}
	}
}

// VerifC20Renamed: a secret sourced from a variable is declared in the main file or in an included file, and a later
// file points it at another variable: the project holds the value of the variable finally named, and only that one
// can show up when secret content is asked for.
func VerifC20Renamed() {
	w := vrtRoot() + "/w"
	oldVal := "OLD" + vrtStringN("old", 1, "ab1")
	newVal := "NEW" + vrtStringN("new", 1, "ab1")
	env := types.Mapping{"A_VAR": oldVal, "B_VAR": newVal}
	declared := map[string]any{"services": map[string]any{"s": map[string]any{"image": "i", "secrets": []any{"tok"}}},
		"secrets": map[string]any{"tok": map[string]any{"environment": "A_VAR"}, "other": map[string]any{"environment": "A_VAR"}}}
	first := declared
	if vrtChoice("declaredInInclude", 2) == 1 {
		vrtYamlFile(w+"/inc/compose.yaml", declared)
		first = map[string]any{"include": []any{"inc/compose.yaml"}, "services": map[string]any{"own": map[string]any{"image": "i"}}}
	}
	later := map[string]any{"secrets": map[string]any{"tok": map[string]any{"environment": "B_VAR"}}}
	p, err := tcLoadProject(env, nil, first, later)
	vrtObserve("err", err != nil)
	vrtAssert("loads", err == nil)
	if err != nil {
		return
	}
	vrtAssert("variable-finally-named", p.Secrets["tok"].Environment == "B_VAR")
	vrtAssert("value-of-the-variable-finally-named", p.Secrets["tok"].Content == newVal)
	vrtAssert("untouched-secret-keeps-its-value", p.Secrets["other"].Content == oldVal)
	for _, json := range []bool{false, true} {
		var plain, full []byte
		var e1, e2 error
		if json {
			plain, e1 = p.MarshalJSON()
			full, e2 = p.MarshalJSON(types.WithSecretContent)
		} else {
			plain, e1 = p.MarshalYAML()
			full, e2 = p.MarshalYAML(types.WithSecretContent)
		}
		vrtAssert("renders", e1 == nil && e2 == nil)
		vrtAssert("no-value-by-default", !c20Contains(string(plain), oldVal) && !c20Contains(string(plain), newVal))
		vrtAssert("content-on-request-is-the-current-value", c20Contains(string(full), newVal))
	}
}
