package loader

import "github.com/compose-spec/compose-go/v2/types"

// VerifC01Reported: malformed or extreme documents outside the single-attribute families - shapes that need two
// attributes together, an arrival route without schema validation, or size: an error or a project, in bounded time.
func VerifC01Reported() {
	w := vrtRoot() + "/w"
	scen := vrtChoice("scenario", 13)
	var m map[string]any
	var err error
	skipV := func(o *Options) { o.SkipValidation = true }
	switch scen {
	case 0: // the file a service extends declares a local volume whose driver_opts is a scalar
		kind := []any{42, "x", []any{"o"}, nil}[vrtChoice("kind", 4)]
		vrtYamlFile(w+"/other/base.yaml", map[string]any{"services": map[string]any{"s": map[string]any{"image": "i"}},
			"volumes": map[string]any{"v": map[string]any{"driver": "local", "driver_opts": kind}}})
		m, err = c01Load(nil, map[string]any{"services": map[string]any{"web": map[string]any{"extends": map[string]any{"file": "other/base.yaml", "service": "s"}}}})
	case 1: // logging.driver / options of a non-comparable kind on both sides of an extends or of a file merge
		bad := []any{[]any{"a"}, map[string]any{"k": "v"}}[vrtChoice("kind", 2)]
		lg := func() map[string]any { return map[string]any{"driver": bad} }
		if vrtChoice("route", 2) == 0 {
			m, err = c01Load(nil, map[string]any{"services": map[string]any{
				"b": map[string]any{"image": "i", "logging": lg()},
				"a": map[string]any{"extends": "b", "logging": lg()}}})
		} else {
			m, err = c01Load(skipV, map[string]any{"services": map[string]any{"a": map[string]any{"image": "i", "logging": lg()}}},
				map[string]any{"services": map[string]any{"a": map[string]any{"logging": lg()}}})
		}
	case 2: // SkipValidation: healthcheck.test holding a non-string
		m, err = c01Load(skipV, map[string]any{"services": map[string]any{"a": map[string]any{"image": "i", "healthcheck": map[string]any{"test": []any{1}}}}})
	case 3: // SkipValidation: ipam subnets of a non-comparable kind in two files
		nw := func() map[string]any {
			return map[string]any{"networks": map[string]any{"n": map[string]any{"ipam": map[string]any{"config": []any{map[string]any{"subnet": []any{1}}}}}},
				"services": map[string]any{"a": map[string]any{"image": "i"}}}
		}
		m, err = c01Load(skipV, nw(), nw())
	case 4: // SkipValidation + SkipNormalization: a null service
		m, err = c01Load(func(o *Options) { o.SkipValidation = true; o.SkipNormalization = true }, map[string]any{"services": map[string]any{"base": nil}})
	case 5: // a dense acyclic dependency graph: LAYERS layers of two services, each depending on both services of the next layer
		layers := vrtParam("LAYERS", 14)
		svcs := map[string]any{}
		name := func(l, k int) string { return "s" + string(rune('a'+l/10)) + string(rune('0'+l%10)) + string(rune('0'+k)) }
		for l := 0; l < layers; l++ {
			for k := 0; k < 2; k++ {
				s := map[string]any{"image": "i"}
				if l+1 < layers {
					s["depends_on"] = []any{name(l+1, 0), name(l+1, 1)}
				}
				svcs[name(l, k)] = s
			}
		}
		m, err = c01Load(nil, map[string]any{"services": svcs})
		vrtAssert("dense-acyclic-graph-loads", err == nil)
	case 6: // an included file's own include with a relative env_file: resolved against the included project, not the process directory
		vrtYamlFile(w+"/sub/compose.yaml", map[string]any{"include": []any{map[string]any{"path": "deeper/compose.yaml", "env_file": "my.env"}},
			"services": map[string]any{"mid": map[string]any{"image": "i"}}})
		vrtFile(w+"/sub/my.env", "TAG=deep\n")
		vrtYamlFile(w+"/sub/deeper/compose.yaml", map[string]any{"services": map[string]any{"deep": map[string]any{"image": "img:${TAG:-none}"}}})
		vrtChdir(vrtRoot())
		m, err = c01Load(nil, map[string]any{"include": []any{"sub/compose.yaml"}, "services": map[string]any{"top": map[string]any{"image": "i"}}})
		vrtAssert("nested-include-with-relative-env-file-loads", err == nil)
		if err == nil {
			vrtAssert("nested-include-env-file-used", tcSvc(m, "deep")["image"] == any("img:deep"))
		}
	case 7: // main:web -> other:base -> other:web -> other:x : the other file reuses the extending service's name; no cycle
		vrtYamlFile(w+"/other/compose.yaml", map[string]any{"services": map[string]any{
			"base": map[string]any{"extends": map[string]any{"service": "web"}, "hostname": "b"},
			"web":  map[string]any{"extends": map[string]any{"service": "x"}, "user": "w"},
			"x":    map[string]any{"image": "deep"}}})
		m, err = c01Load(nil, map[string]any{"services": map[string]any{"web": map[string]any{"extends": map[string]any{"file": "other/compose.yaml", "service": "base"}}}})
		vrtAssert("acyclic-chain-reusing-the-extending-name-loads", err == nil)
		if err == nil {
			s := tcSvc(m, "web")
			vrtAssert("chain-values", s["image"] == any("deep") && s["hostname"] == any("b") && s["user"] == any("w"))
		}
	case 8: // the file a service extends (not schema-validated) has a bind mount whose source is not a string
		src := []any{1, true, []any{"x"}, map[string]any{"a": 1}, nil}[vrtChoice("kind", 5)]
		vrtYamlFile(w+"/other/base.yaml", map[string]any{"services": map[string]any{"b": map[string]any{"image": "i", "volumes": []any{map[string]any{"type": "bind", "source": src, "target": "/x"}}}}})
		m, err = c01Load(nil, map[string]any{"services": map[string]any{"a": map[string]any{"extends": map[string]any{"file": "other/base.yaml", "service": "b"}}}})
	case 9: // the extended file has another service whose own extends.file is not a string
		f := []any{1, true, []any{"x"}, map[string]any{"a": 1}}[vrtChoice("kind", 4)]
		vrtYamlFile(w+"/other/base.yaml", map[string]any{"services": map[string]any{"b": map[string]any{"image": "i"}, "c": map[string]any{"extends": map[string]any{"file": f, "service": "b"}}}})
		m, err = c01Load(nil, map[string]any{"services": map[string]any{"a": map[string]any{"extends": map[string]any{"file": "other/base.yaml", "service": "b"}}}})
	case 10, 11, 12: // SkipValidation, all the way to the typed project: list items and names of the wrong kind
		item := []any{1, true, []any{"x"}, map[string]any{"a": 1}, nil}[vrtChoice("kind", 5)]
		doc := map[string]any{"services": map[string]any{"a": map[string]any{"image": "i"}}}
		svc := doc["services"].(map[string]any)["a"].(map[string]any)
		switch scen {
		case 10:
			attr := []string{"command", "entrypoint"}[vrtChoice("attr", 2)]
			svc[attr] = []any{"x", item}
		case 11:
			svc["healthcheck"] = map[string]any{"test": []any{"CMD", item}}
		case 12:
			sec := []string{"volumes", "networks", "secrets", "configs"}[vrtChoice("section", 4)]
			doc[sec] = map[string]any{"v": map[string]any{"name": item, "external": map[string]any{"name": item}}}
		}
		p, e := tcLoadProject(nil, skipV, doc)
		err = e
		if p != nil {
			m = map[string]any{"name": p.Name}
		}
	}
	c01Outcome(m, err)
	_ = types.Mapping{}
}
