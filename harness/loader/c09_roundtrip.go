package loader

import "github.com/compose-spec/compose-go/v2/types"

// C09: a marshalled project reloads to the same project, and rendering the reload gives
// the identical rendering. Encoders/decoders are the engine's identity model (the tree a
// decoder would read back); the custom Marshal* / DecodeMapstructure / transform pairs are
// the real code.

func c09Doc(feature int, v string, n int) map[string]any {
	s := map[string]any{"image": "i"}
	doc := map[string]any{"services": map[string]any{"s": s}}
	switch feature {
	case 0: // ulimits: single (possibly negative) and soft/hard
		s["ulimits"] = map[string]any{"core": n, "nofile": map[string]any{"soft": 1, "hard": 2}}
	case 1: // healthcheck with durations, command forms
		s["healthcheck"] = map[string]any{"test": []any{"CMD", "x" + v}, "interval": "1m30s", "timeout": "2s", "retries": 3, "start_period": "0s"}
		s["command"] = []any{"run", v}
		s["entrypoint"] = "sh -c " + "e" + v
		switch n {
		case 0: // an explicitly empty command, written as a string or as a list
			s["command"] = ""
			s["entrypoint"] = []any{}
		case 1:
			s["command"] = []any{}
			s["entrypoint"] = ""
		}
	case 2: // byte sizes
		s["mem_limit"] = "1g"
		s["shm_size"] = 64
		s["memswap_limit"] = n // -1 is "unlimited swap"
		s["deploy"] = map[string]any{"resources": map[string]any{"limits": map[string]any{"memory": "50M", "cpus": "0.5", "pids": 2}}}
	case 3: // environment nil / empty / value, labels, extra_hosts
		s["environment"] = []any{"A=" + v, "B=", "C"}
		s["labels"] = map[string]any{"l": v, "m": ""}
		s["extra_hosts"] = []any{"h" + v + "=1.2.3.4", "g=::1"}
		if n == 3 {
			// mapping syntax, one host with several addresses in the order the user wrote them
			s["extra_hosts"] = map[string]any{"h" + v: []any{"9.9.9.9", "1.2.3.4"}, "g": "::1"}
		}
	case 4: // secrets / configs grants: implicit and explicit targets
		// the explicit target of the second grant may coincide with the implicit target of the first
		s["secrets"] = []any{map[string]any{"source": "xa"}, map[string]any{"source": "zot", "target": "/run/secrets/" + v}}
		s["configs"] = []any{"cfg"}
		doc["secrets"] = map[string]any{"xa": map[string]any{"file": "/f"}, "zot": map[string]any{"file": "/z"}}
		// an environment-sourced config (its variable is set) next to configs of the other kinds, and likewise for secrets
		doc["configs"] = map[string]any{"cfg": map[string]any{"content": "c" + v}, "cenv": map[string]any{"environment": "E"}, "cfile": map[string]any{"file": "/cf"}, "aext": map[string]any{"external": true}}
		doc["secrets"].(map[string]any)["senv"] = map[string]any{"environment": "E"}
	case 5: // ports and volumes, devices
		s["ports"] = []any{"8080:80", map[string]any{"target": 53, "protocol": "udp", "published": "53", "mode": "host"}}
		s["volumes"] = []any{"/host/" + v + ":/t:ro", "vol:/data", map[string]any{"type": "tmpfs", "target": "/tmp", "tmpfs": map[string]any{"size": 1024}}}
		if n == 3 {
			// two mounts whose targets only differ by a trailing slash
			s["volumes"] = append(s["volumes"].([]any), map[string]any{"type": "volume", "source": "vol", "target": "/dup/"}, map[string]any{"type": "volume", "source": "vol", "target": "/dup"})
		}
		// explicit values that differ from the default of an omitted attribute
		s["volumes"] = append(s["volumes"].([]any), map[string]any{"type": "bind", "source": "/host/nb", "target": "/nb", "bind": map[string]any{"create_host_path": false}},
			map[string]any{"type": "bind", "source": "/host/yb", "target": "/yb", "bind": map[string]any{"create_host_path": true, "propagation": "rshared"}},
			map[string]any{"type": "volume", "source": "vol", "target": "/nc", "volume": map[string]any{"nocopy": false}})
		s["devices"] = []any{"/dev/a:/dev/b:r"}
		doc["volumes"] = map[string]any{"vol": map[string]any{"labels": map[string]any{"k": v}}}
	case 6: // depends_on, networks with settings, profiles of a second service
		s["depends_on"] = map[string]any{"o": map[string]any{"condition": "service_healthy", "restart": true, "required": false}}
		s["networks"] = map[string]any{"net": map[string]any{"aliases": []any{"a" + v}, "ipv4_address": "10.0.0.2"}}
		doc["services"].(map[string]any)["o"] = map[string]any{"image": "j"}
		doc["networks"] = map[string]any{"net": map[string]any{"ipam": map[string]any{"config": []any{map[string]any{"subnet": "10.0.0.0/24"}}}, "driver_opts": map[string]any{"o": v}}}
	case 7: // build with args, ssh, ulimits
		s["build"] = map[string]any{"context": "/ctx", "args": map[string]any{"A": v, "N": nil}, "ssh": c09SSH(n, v), "ulimits": map[string]any{"nproc": n},
			"tags": []any{"t" + v}, "extra_hosts": []any{"b=1.1.1.1"}}
	case 8: // env_file long form incl. format, label_file
		s["env_file"] = []any{map[string]any{"path": "/e/a.env", "required": false}, map[string]any{"path": "/e/b.env", "required": false, "format": "raw"}}
	case 9: // device requests and gpus: numeric count, `all`, and no count (defaults to all)
		dev := map[string]any{"capabilities": []any{"gpu"}, "count": n}
		switch n {
		case 3:
			dev["count"] = "all"
		case -1:
			delete(dev, "count")
		}
		s["gpus"] = []any{map[string]any{"driver": "nv" + v, "count": "all"}}
		s["deploy"] = map[string]any{"resources": map[string]any{"reservations": map[string]any{"devices": []any{dev}}}, "replicas": 2,
			"restart_policy": map[string]any{"condition": "on-failure", "delay": "5s", "window": "1m"}}
	case 10: // logging, sysctls, tmpfs, extensions
		s["logging"] = map[string]any{"driver": "d", "options": map[string]any{"o": v}}
		s["sysctls"] = []any{"net.a=" + v}
		s["tmpfs"] = []any{"/run", "/x" + v}
		// extension values are opaque: keys that look like extensions inside them stay where they are
		s["x-custom"] = map[string]any{"k": v, "x-inner": v, "l": []any{map[string]any{"x-deep": v}}}
		doc["x-top"] = []any{v, map[string]any{"x-in-list": v}}
		doc["x-meta"] = map[string]any{"x-inner": map[string]any{"x-innermost": v}}
	case 11: // external resources and names
		doc["networks"] = map[string]any{"ext": map[string]any{"external": true, "name": "n" + v}}
		doc["volumes"] = map[string]any{"ev": map[string]any{"external": true}}
		doc["secrets"] = map[string]any{"es": map[string]any{"environment": "E" + v}}
	case 12: // values that hold a literal dollar sign, written `$$` in the source
		s["command"] = []any{"echo", "$$HOME", "$${" + "E}", "cost$$" + v}
		s["labels"] = map[string]any{"price": "$$5"}
	}
	return doc
}

// c09SSH: the spellings of build.ssh - bare default, default with a path, list and mapping syntax.
func c09SSH(n int, v string) any {
	switch n {
	case 0:
		return []any{"default=/sock" + v, "k=/key" + v}
	case -1:
		return map[string]any{"default": "/sock" + v, "k": "/key" + v}
	case 3:
		return map[string]any{"default": nil, "k": "/key" + v}
	}
	return []any{"default", "k=/key" + v}
}

func VerifC09RoundTrip() {
	feature := vrtChoice("feature", 13)
	v := "x" + vrtString("v", vrtParam("VL", 1), "ab")
	n := []int{1, 0, -1, 3}[vrtChoice("n", 4)]
	json := vrtChoice("json", 2) == 1
	doc := c09Doc(feature, v, n)
	env := types.Mapping{"E": "val" + v}
	p1, err := tcLoadProject(env, nil, doc)
	vrtObserve("err1", err != nil)
	if err != nil {
		return // only successfully loaded projects are in scope
	}
	var b []byte
	if json {
		b, err = p1.MarshalJSON()
	} else {
		b, err = p1.MarshalYAML()
	}
	vrtAssert("rendering-succeeds", err == nil)
	if err != nil {
		return
	}
	tree, ok := vrtDecodeRendered(b, json)
	vrtAssert("rendering-is-a-document", ok)
	if !ok {
		return
	}
	p2, err2 := tcLoadProject(env, nil, tree)
	vrtObserve("err2", err2 != nil)
	if err2 != nil {
		vrtObserve("msg", err2.Error())
	}
	vrtAssert("rendering-reloads#"+[]string{"ulimits", "healthcheck-command", "bytes", "env-labels-hosts", "grants", "ports-volumes-devices", "depends-networks", "build", "env_file", "device-requests", "logging-sysctls-ext", "external", "escaped-dollar"}[feature], err2 == nil)
	if err2 != nil {
		return
	}
	vrtAssert("same-name", p1.Name == p2.Name)
	if json {
		// JSON omits extension attributes below the top level by design
		for k, s := range p1.Services {
			s.Extensions = nil
			p1.Services[k] = s
		}
		for k, s := range p2.Services {
			s.Extensions = nil
			p2.Services[k] = s
		}
	}
	vrtObserve("svc1", p1.Services)
	cls := []string{"ulimits", "healthcheck-command", "bytes", "env-labels-hosts", "grants", "ports-volumes-devices", "depends-networks", "build", "env_file", "device-requests", "logging-sysctls-ext", "external", "escaped-dollar"}[feature]
	if feature == 9 && n == 0 {
		cls = "device-count-0"
	}
	vrtAssert("same-services#"+cls, vrtDeepEqual(any(p1.Services), any(p2.Services)))
	vrtAssert("same-networks", vrtDeepEqual(any(p1.Networks), any(p2.Networks)))
	vrtAssert("same-volumes", vrtDeepEqual(any(p1.Volumes), any(p2.Volumes)))
	vrtAssert("same-secrets", vrtDeepEqual(any(p1.Secrets), any(p2.Secrets)))
	vrtAssert("same-configs", vrtDeepEqual(any(p1.Configs), any(p2.Configs)))
	vrtAssert("same-extensions", vrtDeepEqual(any(p1.Extensions), any(p2.Extensions)))
	var b2 []byte
	if json {
		b2, err = p2.MarshalJSON()
	} else {
		b2, err = p2.MarshalYAML()
	}
	vrtAssert("second-rendering-succeeds", err == nil)
	tree2, ok2 := vrtDecodeRendered(b2, json)
	vrtAssert("identical-second-rendering", ok2 && vrtDeepEqual(any(tree), any(tree2)))
}
