package loader

import (
	"context"

	"github.com/compose-spec/compose-go/v2/consts"
	"github.com/compose-spec/compose-go/v2/override"
)

// C05: extends = base's resolved definition with own attributes applied on top, no
// `extends` left, independent of visit order, base untouched, cycle/missing => error.

func c05Clone(v any) any {
	switch x := v.(type) {
	case map[string]any:
		o := map[string]any{}
		for k, e := range x {
			o[k] = c05Clone(e)
		}
		return o
	case []any:
		o := make([]any, len(x))
		for i, e := range x {
			o[i] = c05Clone(e)
		}
		return o
	}
	return v
}

// attribute kinds placed along the chain: one per merge class
func c05Attr(kind int, v string) (string, any) {
	switch kind {
	case 0:
		return "hostname", "h" + v
	case 3:
		return "environment", map[string]any{"K": v, "E" + v: "1"}
	case 2:
		return "healthcheck", map[string]any{"interval": "1s", "timeout": v + "s"}
	case 1:
		if v == "2" {
			return "cap_add", []any{"C" + v, "D" + v}
		}
		return "cap_add", []any{"C" + v}
	case 4:
		return "command", []any{"run", v}
	case 5:
		return "deploy", map[string]any{"resources": map[string]any{"limits": map[string]any{"cpus": "0." + v}}}
	}
	return "labels", []any{"l=" + v}
}

func c05Run(services map[string]any) (map[string]any, error) {
	dict := map[string]any{"services": services}
	ctx := context.WithValue(context.Background(), consts.ComposeFileKey{}, vrtRoot()+"/w/compose.yaml")
	opts := &Options{}
	err := ApplyExtends(ctx, dict, opts, &cycleTracker{})
	if err != nil {
		return nil, err
	}
	return dict["services"].(map[string]any), nil
}

func VerifC05SameFile() {
	// chain: a -> b -> c (length 2) or a -> b (length 1); second child d of the chain's base
	long := vrtChoice("chain", 2) == 1
	mkSvc := func(tag string) map[string]any {
		s := map[string]any{"image": "i" + tag}
		kind := vrtChoice("kind"+tag, vrtParam("KINDS", 6))
		val := []string{"1", "2"}[vrtChoice("val"+tag, 2)]
		name, v := c05Attr(kind, val)
		s[name] = v
		return s
	}
	a, b, c, d := mkSvc("a"), mkSvc("b"), mkSvc("c"), mkSvc("d")
	// e is a second child of the intermediate b, with the same attribute kind as a
	e := map[string]any{"image": "ie"}
	for k, v := range a {
		if k != "image" {
			e[k] = c05Clone(v)
		}
	}
	if l, ok := e["cap_add"].([]any); ok && len(l) > 0 {
		e["cap_add"] = []any{"E"}
	}
	e["extends"] = "b"
	a["extends"] = map[string]any{"service": "b"}
	baseName := "b"
	if long {
		b["extends"] = "c"
		baseName = "c"
	}
	d["extends"] = map[string]any{"service": baseName}
	build := func() map[string]any {
		return map[string]any{"a": c05Clone(a), "b": c05Clone(b), "c": c05Clone(c), "d": c05Clone(d), "e": c05Clone(e)}
	}
	// reference: compose ExtendService bottom-up
	ext := func(base, own map[string]any) map[string]any {
		o := c05Clone(own).(map[string]any)
		m, err := override.ExtendService(c05Clone(base).(map[string]any), o)
		vrtAssert("reference-merge-ok", err == nil)
		if err != nil {
			return nil
		}
		delete(m, "extends")
		return m
	}
	rc := c05Clone(c).(map[string]any)
	rb := c05Clone(b).(map[string]any)
	if long {
		rb = ext(rc, b)
	}
	ra := ext(rb, a)
	var rd map[string]any
	if long {
		rd = ext(rc, d)
	} else {
		rd = ext(rb, d)
	}
	re := ext(rb, e)
	vrtAssume(ra != nil && rd != nil && rb != nil && re != nil)

	got, err := c05Run(build())
	vrtObserve("err", err != nil)
	vrtAssert("acyclic-chain-resolves", err == nil)
	if err != nil {
		return
	}
	vrtObserve("a", got["a"])
	vrtAssert("a-is-base-then-own", vrtDeepEqual(got["a"], any(ra)))
	vrtAssert("d-is-base-then-own", vrtDeepEqual(got["d"], any(rd)))
	vrtAssert("e-is-base-then-own", vrtDeepEqual(got["e"], any(re)))
	vrtAssert("b-resolved", vrtDeepEqual(got["b"], any(rb)))
	vrtAssert("root-base-untouched", vrtDeepEqual(got["c"], any(rc)))
	_, hasExt := got["a"].(map[string]any)["extends"]
	vrtAssert("no-extends-left", !hasExt)
	// every other visit order gives the same result
	mode := 1 + vrtChoice("order", vrtParam("ORDERS", 3))
	vrtMapOrder(mode)
	got2, err2 := c05Run(build())
	vrtMapOrder(0)
	vrtAssert("order-independent-outcome", err2 == nil)
	if err2 == nil {
		vrtAssert("order-independent-result", vrtDeepEqual(any(got), any(got2)))
	}
}

func VerifC05Cycle() {
	// a -> b -> ... with a symbolic back edge: every cyclic chain is an error, every missing base too
	n := 2 + vrtChoice("len", 2)
	names := []string{"a", "b", "c"}
	svcs := map[string]any{}
	targets := []string{"a", "b", "c", "zz"}
	cyc := false
	missing := false
	// follow the chain starting at a to decide the expectation
	next := map[string]string{}
	for i := 0; i < n; i++ {
		s := map[string]any{"image": "i"}
		if i < n-1 {
			s["extends"] = map[string]any{"service": names[i+1]}
			next[names[i]] = names[i+1]
		} else {
			t := vrtChoice("last", 5)
			if t < 4 {
				s["extends"] = targets[t]
				next[names[i]] = targets[t]
			}
		}
		svcs[names[i]] = s
	}
	for _, start := range names[:n] {
		seen := map[string]bool{}
		cur := start
		for {
			if seen[cur] {
				cyc = true
				break
			}
			seen[cur] = true
			nx, ok := next[cur]
			if !ok {
				break
			}
			if _, exists := svcs[nx]; !exists {
				missing = true
				break
			}
			cur = nx
		}
	}
	vrtMapOrder(vrtChoice("order", 2))
	_, err := c05Run(svcs)
	vrtMapOrder(0)
	if cyc || missing {
		vrtCover("bad-chain")
		vrtAssert("cycle-or-missing-base-is-error", err != nil)
	} else {
		vrtCover("good-chain")
		vrtAssert("acyclic-chain-resolves", err == nil)
	}
}

// VerifC05OtherFile: base in another file of another directory, through the real pipeline.
func VerifC05OtherFile() {
	root := vrtRoot()
	v := "x" + vrtString("v", vrtParam("VL", 1), "ab")
	other := map[string]any{"services": map[string]any{
		// b is a homonym of a service of the main file; x -> b is an in-file link inside the other file
		"b": map[string]any{"image": "ob", "build": map[string]any{"context": "./ctx" + v}, "env_file": []any{"./e.env"},
			"volumes": []any{"./data:/data"}, "hostname": "h"},
		"x": map[string]any{"image": "base", "extends": map[string]any{"service": "b"}},
	}}
	// the other file lives below the project directory, or in a sibling directory whose name starts with
	// the project directory's name
	oRel := []string{"other", "../w-common"}[vrtChoice("otherDir", 2)]
	oAbs := root + "/w/other"
	if oRel != "other" {
		oAbs = root + "/w-common"
	}
	present := vrtChoice("filePresent", 2) == 1
	if present {
		vrtYamlFile(oAbs+"/compose.yaml", other)
	}
	if present && vrtChoice("homonymChain", 2) == 1 {
		// compose.yaml:web -> other/compose.yaml:web -> third/compose.yaml:web : same base file name and the
		// same service name at every link, no cycle
		thirdAbs := root + "/w/third"
		if oRel != "other" {
			thirdAbs = root + "/third"
		}
		vrtYamlFile(thirdAbs+"/compose.yaml", map[string]any{"services": map[string]any{"web": map[string]any{"image": "third", "build": map[string]any{"context": "./t"}}}})
		other["services"].(map[string]any)["web"] = map[string]any{"extends": map[string]any{"file": "../third/compose.yaml", "service": "web"}, "hostname": "mid"}
		vrtYamlFile(oAbs+"/compose.yaml", other)
		m, err := tcLoad(nil, nil, map[string]any{"services": map[string]any{"web": map[string]any{"extends": map[string]any{"file": oRel + "/compose.yaml", "service": "web"}, "user": "u"}}})
		vrtObserve("err", err != nil)
		vrtAssert("acyclic-homonym-chain-loads", err == nil)
		if err == nil {
			s := tcSvc(m, "web")
			vrtAssert("homonym-chain-values", s["image"] == any("third") && s["hostname"] == any("mid") && s["user"] == any("u"))
			b, _ := s["build"].(map[string]any)
			vrtAssert("homonym-chain-path-anchored-at-third", b["context"] == any(thirdAbs+"/t"))
		}
		return
	}
	if present && vrtChoice("twoFilesSameNames", 2) == 1 {
		// main:a -> f1:x -> f1:y -> f2:x -> f2:y : the two other files use the same service names; no cycle
		f2Abs := oAbs + "/f2"
		vrtYamlFile(f2Abs+"/compose.yaml", map[string]any{"services": map[string]any{
			"x": map[string]any{"extends": map[string]any{"service": "y"}, "hostname": "f2x"},
			"y": map[string]any{"image": "deep", "build": map[string]any{"context": "./d"}}}})
		vrtYamlFile(oAbs+"/compose.yaml", map[string]any{"services": map[string]any{
			"x": map[string]any{"extends": map[string]any{"service": "y"}, "user": "f1x"},
			"y": map[string]any{"extends": map[string]any{"file": "f2/compose.yaml", "service": "x"}, "domainname": "f1y"}}})
		m, err := tcLoad(nil, nil, map[string]any{"services": map[string]any{"a": map[string]any{"extends": map[string]any{"file": oRel + "/compose.yaml", "service": "x"}}}})
		vrtObserve("err", err != nil)
		if err != nil {
			vrtObserve("msg", err.Error())
		}
		vrtAssert("acyclic-chain-over-homonymous-files-loads", err == nil)
		if err == nil {
			s := tcSvc(m, "a")
			vrtAssert("long-chain-values", s["image"] == any("deep") && s["hostname"] == any("f2x") && s["user"] == any("f1x") && s["domainname"] == any("f1y"))
			b, _ := s["build"].(map[string]any)
			vrtAssert("long-chain-path-anchored-at-last-file", b["context"] == any(f2Abs+"/d"))
		}
		return
	}
	if present && vrtChoice("backReference", 2) == 1 {
		// main:app -> other:app -> main:shared : the chain comes back to the first file without being a cycle;
		// the other file has a homonymous `shared` that must not be picked
		back := "../w/compose.yaml"
		if oRel == "other" {
			back = "../compose.yaml"
		}
		other["services"].(map[string]any)["app"] = map[string]any{"extends": map[string]any{"file": back, "service": "shared"}, "hostname": "mid"}
		other["services"].(map[string]any)["shared"] = map[string]any{"image": "decoy", "build": map[string]any{"context": "./decoy"}}
		vrtYamlFile(oAbs+"/compose.yaml", other)
		mainDoc := func() map[string]any {
			return map[string]any{"services": map[string]any{
				"app":    map[string]any{"extends": map[string]any{"file": oRel + "/compose.yaml", "service": "app"}, "user": "u"},
				"shared": map[string]any{"image": "real", "build": map[string]any{"context": "./ctx" + v}},
			}}
		}
		vrtYamlFile(root+"/w/compose.yaml", mainDoc())
		m, err := tcLoad(nil, nil, mainDoc())
		vrtObserve("err", err != nil)
		if err != nil {
			vrtObserve("msg", err.Error())
		}
		vrtAssert("acyclic-back-reference-loads", err == nil)
		if err == nil {
			s := tcSvc(m, "app")
			vrtAssert("back-reference-values", s["image"] == any("real") && s["hostname"] == any("mid") && s["user"] == any("u"))
			b, _ := s["build"].(map[string]any)
			vrtAssert("back-reference-path-anchored-at-first-file", b["context"] == any(root+"/w/ctx"+v))
		}
		return
	}
	target := []string{"x", "b", "zz"}[vrtChoice("target", 3)]
	main := map[string]any{"services": map[string]any{
		"a": map[string]any{"extends": map[string]any{"service": "b"}, "user": "u"},
		"b": map[string]any{"extends": map[string]any{"file": oRel + "/compose.yaml", "service": target}, "hostname": "own"},
	}}
	m, err := tcLoad(nil, nil, main)
	vrtObserve("err", err != nil)
	if !present || target == "zz" {
		vrtCover("missing")
		vrtAssert("missing-file-or-base-is-error", err != nil)
		return
	}
	vrtCover("resolved")
	vrtAssert("acyclic-mixed-chain-loads", err == nil)
	if err != nil {
		vrtObserve("msg", err.Error())
		return
	}
	for _, n := range []string{"a", "b"} {
		s := tcSvc(m, n)
		vrtObserve(n, s)
		bld, _ := s["build"].(map[string]any)
		vrtAssert("inherited-build-context-anchored-at-other-dir", bld["context"] == any(oAbs+"/ctx"+v))
		ef, _ := s["env_file"].([]any)
		vrtAssert("inherited-env-file-anchored", len(ef) == 1 && ef[0].(map[string]any)["path"] == any(oAbs+"/e.env"))
		vols, _ := s["volumes"].([]any)
		vrtAssert("inherited-bind-anchored", len(vols) == 1 && vols[0].(map[string]any)["source"] == any(oAbs+"/data"))
		vrtAssert("own-attribute-wins", s["hostname"] == any("own"))
		_, hasExt := s["extends"]
		vrtAssert("no-extends-left", !hasExt)
	}
	vrtAssert("chain-top-own", tcSvc(m, "a")["user"] == any("u"))
	img := "base"
	if target == "b" {
		img = "ob"
	}
	vrtObserve("img", tcSvc(m, "a")["image"])
	vrtAssert("image-from-base", tcSvc(m, "a")["image"] == any(img))
}
