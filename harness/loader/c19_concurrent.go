package loader

import (
	"context"
	"sync"

	"github.com/compose-spec/compose-go/v2/types"
)

// C19 (loads): loads share no synchronisation with each other, so a load that writes -
// without holding a lock - any location reachable from a package-level variable or from its
// own arguments races with a concurrent load of the same arguments. The engine tracks such
// writes during one load; natively the same inputs are loaded from two goroutines under
// the race detector.
func VerifC19SharedWrites() {
	w := vrtRoot() + "/w"
	family := vrtChoice("family", 9)
	doc := map[string]any{"services": map[string]any{"s": map[string]any{"image": "i"}}}
	switch family {
	case 1:
		doc["version"] = "3.8"
	case 2:
		doc["services"].(map[string]any)["t"] = map[string]any{"extends": "s", "environment": []any{"A=1"}}
	case 3:
		vrtYamlFile(w+"/inc/inc.yaml", map[string]any{"services": map[string]any{"i": map[string]any{"image": "i"}}})
		doc["include"] = []any{"inc/inc.yaml"}
	case 4:
		vrtFile(w+"/a.env", "K=v\n")
		doc["services"].(map[string]any)["s"].(map[string]any)["env_file"] = []any{"a.env"}
	case 5:
		doc["name"] = "fromfile"
	case 6:
		// interpolation with every operator
		doc["services"].(map[string]any)["s"].(map[string]any)["environment"] = []any{"A=${X:-d}", "B=${X-d}", "C=${X:+r}", "D=${X+r}", "E=${X:?m}", "F=${X?m}", "G=${Y:-${X}}"}
	case 8:
		// string scalars at typed positions (quoted literals and variables): the conversion table is consulted for them
		doc["services"].(map[string]any)["s"] = map[string]any{"image": "i", "privileged": "true", "cpus": "${X}", "scale": "${X}",
			"ports": []any{map[string]any{"target": "${X}", "published": "8080"}}, "ulimits": map[string]any{"nofile": "${X}"},
			"volumes": []any{map[string]any{"type": "volume", "source": "v", "target": "/v", "read_only": "${RO:-true}"}}}
		doc["volumes"] = map[string]any{"v": map[string]any{"external": "${EXT:-false}"}}
	case 7:
		// a whole-model pass: profiles, depends_on, volumes, secrets, ports, build
		vrtFile(w+"/sec.txt", "s")
		doc["services"].(map[string]any)["s"] = map[string]any{"image": "i", "build": map[string]any{"context": ".", "args": []any{"K=${X}"}},
			"ports": []any{"80:80", "9000-9001:9000-9001/udp"}, "volumes": []any{"./d:/d", "v:/v"}, "secrets": []any{"sec"},
			"profiles": []any{"p"}, "labels": []any{"l=1"}, "ulimits": map[string]any{"nofile": 10}, "healthcheck": map[string]any{"test": "true", "interval": "1s"}}
		doc["services"].(map[string]any)["t"] = map[string]any{"image": "i", "depends_on": []any{"s"}, "deploy": map[string]any{"resources": map[string]any{"limits": map[string]any{"memory": "1g", "cpus": "0.5"}}}}
		doc["volumes"] = map[string]any{"v": nil}
		doc["secrets"] = map[string]any{"sec": map[string]any{"file": "./sec.txt"}}
	}
	imperative := vrtChoice("nameSetByCaller", 2) == 1
	env := types.Mapping{"X": "1"}
	details := types.ConfigDetails{
		WorkingDir:  w,
		ConfigFiles: []types.ConfigFile{{Filename: w + "/compose.yaml", Config: doc}},
		Environment: env,
	}
	if vrtChoice("fileByName", 2) == 1 {
		// the file is given by name only and read by the loader
		vrtYamlFile(w+"/compose.yaml", doc)
		details.ConfigFiles = []types.ConfigFile{{Filename: w + "/compose.yaml"}}
	}
	// option values the caller keeps and passes to every load: the profile list (deliberately not in
	// alphabetical order) is shared like the ConfigDetails
	profiles := []string{"q", "p", "a"}
	opts := func(o *Options) {
		if imperative {
			o.SetProjectName("p", true)
		} else {
			o.SetProjectName("q", false)
		}
		o.Profiles = profiles
	}
	if vrtEngine() {
		vrtTrackShared(&details, env, profiles)
		_, err := LoadWithContext(context.Background(), details, opts)
		vrtObserve("err", err != nil)
		for _, wr := range vrtTrackReportAll() {
			vrtReport("no-unsynchronised-write-to-shared-state#" + wr)
		}
		return
	}
	// native twin: the same ConfigDetails loaded from two goroutines (run with -race by the driver)
	var wg sync.WaitGroup
	for k := 0; k < 2; k++ {
		wg.Add(1)
		go func() {
			defer wg.Done()
			for r := 0; r < 20; r++ {
				LoadWithContext(context.Background(), details, opts) //nolint:errcheck
			}
		}()
	}
	wg.Wait()
	vrtObserve("err", false)
}

// VerifC19TwoLoads: two loads of the same files run concurrently with different environments (the engine
// interleaves them at every synchronisation point the library has, within the preemption bound); each returns
// what it returns alone.
func VerifC19TwoLoads() {
	w := vrtRoot() + "/w"
	shape := vrtChoice("shape", 3)
	main := map[string]any{"services": map[string]any{
		"one": map[string]any{"image": "app:${TAG}", "environment": []any{"T=${TAG}"}},
		"two": map[string]any{"image": "app:${TAG}"},
	}}
	switch shape {
	case 1: // both services extend a service of another file whose values are interpolated
		vrtYamlFile(w+"/base.yaml", map[string]any{"services": map[string]any{"b": map[string]any{"image": "app:${TAG}", "labels": map[string]any{"t": "${TAG}"}}}})
		main = map[string]any{"services": map[string]any{
			"one": map[string]any{"extends": map[string]any{"file": "base.yaml", "service": "b"}},
			"two": map[string]any{"extends": map[string]any{"file": "base.yaml", "service": "b"}},
		}}
	case 2: // an included file with interpolated values, and an env file
		vrtYamlFile(w+"/inc/compose.yaml", map[string]any{"services": map[string]any{"one": map[string]any{"image": "app:${TAG}"}}})
		vrtFile(w+"/e.env", "T=${TAG}\n")
		main = map[string]any{"include": []any{"inc/compose.yaml"}, "services": map[string]any{"two": map[string]any{"image": "app:${TAG}", "env_file": []any{"e.env"}}}}
	}
	vrtYamlFile(w+"/compose.yaml", main)
	load := func(tag string) (*types.Project, error) {
		return LoadWithContext(context.Background(), types.ConfigDetails{
			WorkingDir:  w,
			ConfigFiles: []types.ConfigFile{{Filename: w + "/compose.yaml"}},
			Environment: types.Mapping{"TAG": tag},
		}, func(o *Options) { o.SetProjectName("p"+tag, true) })
	}
	vrtSetPreemptions(vrtParam("PREEMPT", 2))
	var wg sync.WaitGroup
	var pa, pb *types.Project
	var ea, eb error
	wg.Add(2)
	go func() {
		defer wg.Done()
		pa, ea = load("a")
	}()
	go func() {
		defer wg.Done()
		pb, eb = load("b")
	}()
	wg.Wait()
	vrtObserve("err", ea != nil || eb != nil)
	vrtAssert("concurrent-loads-succeed", ea == nil && eb == nil)
	if ea != nil || eb != nil {
		return
	}
	check := func(p *types.Project, tag string) {
		vrtAssert("concurrent-load-returns-its-own-name", p.Name == "p"+tag)
		for _, n := range []string{"one", "two"} {
			vrtAssert("concurrent-load-returns-its-own-result", p.Services[n].Image == "app:"+tag)
		}
		switch shape {
		case 0:
			v := p.Services["one"].Environment["T"]
			vrtAssert("concurrent-load-returns-its-own-result", v != nil && *v == tag)
		case 1:
			vrtAssert("concurrent-load-returns-its-own-result", p.Services["one"].Labels["t"] == tag && p.Services["two"].Labels["t"] == tag)
		case 2:
			v := p.Services["two"].Environment["T"]
			vrtAssert("concurrent-load-returns-its-own-result", v != nil && *v == tag)
		}
	}
	check(pa, "a")
	check(pb, "b")
}
