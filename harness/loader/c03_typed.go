package loader

import "github.com/compose-spec/compose-go/v2/types"

// C03 at the level of the typed project: alternative spellings (string vs list, list vs
// mapping, number vs soft/hard) give exactly the same typed service. String pieces are
// symbolic and may be empty.
func VerifC03Typed() {
	which := vrtChoice("attr", 14)
	L := vrtParam("VL", 1)
	a := vrtString("a", L, "ab")
	b := vrtString("b", L, "ab")
	sep := []string{" ", "  ", "\t"}[vrtChoice("sep", 3)]
	words := []any{}
	if a != "" {
		words = append(words, a)
	}
	if b != "" {
		words = append(words, b)
	}
	var attr string
	var short, long any
	switch which {
	case 0, 1: // a shell command line is the list of its words; the empty string is the empty list, not "unset"
		attr = []string{"command", "entrypoint"}[which]
		short = a + sep + b
		long = words
	case 2:
		attr = "healthcheck"
		short = map[string]any{"test": "x" + a + sep + b}
		long = map[string]any{"test": []any{"CMD-SHELL", "x" + a + sep + b}}
	case 3, 4, 5, 6:
		attr = []string{"dns", "dns_search", "tmpfs", "env_file"}[which-3]
		short = "/x" + a
		long = []any{"/x" + a}
		if attr == "env_file" {
			vrtFile("/x"+a, "K=v\n")
		}
	case 7:
		attr = "label_file"
		short = "/l" + a
		long = []any{"/l" + a}
		vrtFile("/l"+a, "K=v\n")
	case 8, 9, 10: // KEY=VALUE list vs mapping, values possibly empty
		attr = []string{"labels", "sysctls", "annotations"}[which-8]
		short = []any{"k=" + a, "l=" + b}
		long = map[string]any{"k": a, "l": b}
	case 11:
		attr = "extra_hosts"
		short = []any{"h" + a + "=1.2.3.4", "g" + b + ":5.6.7.8"}
		long = map[string]any{"h" + a: "1.2.3.4", "g" + b: "5.6.7.8"}
		if a == b {
			long = map[string]any{"h" + a: "1.2.3.4", "g" + a: "5.6.7.8"}
		}
	case 12:
		attr = "ulimits"
		n := vrtInt("n", -1, 3)
		short = map[string]any{"nofile": n}
		long = map[string]any{"nofile": map[string]any{"soft": n, "hard": n}}
	case 13:
		attr = "build"
		short = map[string]any{"context": ".", "args": []any{"k=" + a, "l"}, "labels": []any{"m=" + b}, "tags": []any{"t"}, "cache_from": []any{"c"}}
		long = map[string]any{"context": ".", "args": map[string]any{"k": a, "l": nil}, "labels": map[string]any{"m": b}, "tags": []any{"t"}, "cache_from": []any{"c"}}
	}
	mk := func(v any) map[string]any {
		return map[string]any{"services": map[string]any{"s": map[string]any{"image": "i", attr: v}}}
	}
	ps, es := tcLoadProject(types.Mapping{}, nil, mk(short))
	pl, el := tcLoadProject(types.Mapping{}, nil, mk(long))
	vrtObserve("errs", es != nil)
	vrtObserve("errl", el != nil)
	vrtAssert("same-outcome#"+attr, (es != nil) == (el != nil))
	if es != nil || el != nil {
		return
	}
	vrtObserve("short", ps.Services["s"])
	if attr == "ulimits" {
		// the typed model keeps the single-number spelling apart (UlimitsConfig.Single): compare the effective limits
		eff := func(u *types.UlimitsConfig) [2]int {
			if u.Single != 0 {
				return [2]int{u.Single, u.Single}
			}
			return [2]int{u.Soft, u.Hard}
		}
		us, ul := ps.Services["s"].Ulimits["nofile"], pl.Services["s"].Ulimits["nofile"]
		vrtAssert("short-equals-long#ulimits", us != nil && ul != nil && eff(us) == eff(ul))
		return
	}
	vrtAssert("short-equals-long#"+attr, vrtDeepEqual(any(ps.Services["s"]), any(pl.Services["s"])))
	// and through an override file that replaces the attribute
	if which <= 1 {
		base := map[string]any{"services": map[string]any{"s": map[string]any{"image": "i", attr: []any{"base"}}}}
		os, e1 := tcLoadProject(types.Mapping{}, nil, base, map[string]any{"services": map[string]any{"s": map[string]any{attr: short}}})
		ol, e2 := tcLoadProject(types.Mapping{}, nil, base, map[string]any{"services": map[string]any{"s": map[string]any{attr: long}}})
		vrtAssert("override-loads#"+attr, e1 == nil && e2 == nil)
		if e1 == nil && e2 == nil {
			vrtAssert("override-short-equals-long#"+attr, vrtDeepEqual(any(os.Services["s"]), any(ol.Services["s"])))
		}
	}
}
