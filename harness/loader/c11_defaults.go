package loader

// C11: a model leaving a default implicit loads to the same model as the one spelling it
// out; an explicit different value is never overwritten. Dict-level pipeline, whole-model
// deep equality decided by the solver.

func c11Svc(extra map[string]any) map[string]any {
	s := map[string]any{"image": "i"}
	for k, v := range extra {
		s[k] = v
	}
	return s
}

// the name of the service under test: an ordinary one, or one that starts like an extension key (a valid service name)
var c11Name = "s"

// set by the scenarios that also run with interpolation switched off
var c11SkipInterpolation bool

func VerifC11Defaults() {
	scen := vrtChoice("scenario", 16)
	c11Name = []string{"s", "x-s"}[vrtChoice("serviceName", 2)]
	v := "x" + vrtString("v", vrtParam("VL", 1), "ab")
	other := map[string]any{"image": "i"}
	data := map[string]any{"image": "i"}
	var implicit, explicit, different map[string]any
	var diffCheck func(m map[string]any) bool
	mk := func(svc map[string]any, top map[string]any) map[string]any {
		d := map[string]any{"services": map[string]any{c11Name: svc, "o": other, "data": data}}
		for k, e := range top {
			d[k] = e
		}
		return d
	}
	switch scen {
	case 0: // default network
		implicit = mk(c11Svc(nil), nil)
		explicit = mk(c11Svc(map[string]any{"networks": map[string]any{"default": nil}}), map[string]any{"networks": map[string]any{"default": map[string]any{"name": "p_default"}}})
		other["networks"] = map[string]any{"default": nil}
		different = mk(c11Svc(map[string]any{"network_mode": "host"}), nil)
		diffCheck = func(m map[string]any) bool {
			_, has := tcSvc(m, c11Name)["networks"]
			return !has && tcSvc(m, c11Name)["network_mode"] == any("host")
		}
	case 1: // resource names
		kind := []string{"networks", "volumes", "secrets", "configs"}[vrtChoice("kind", 4)]
		body := func(name any) map[string]any {
			o := map[string]any{}
			if kind == "secrets" || kind == "configs" {
				o["file"] = "/f"
			}
			if name != nil {
				o["name"] = name
			}
			return o
		}
		implicit = mk(c11Svc(nil), map[string]any{kind: map[string]any{"r": body(nil)}})
		explicit = mk(c11Svc(nil), map[string]any{kind: map[string]any{"r": body("p_r")}})
		different = mk(c11Svc(nil), map[string]any{kind: map[string]any{"r": body(v)}})
		if vrtChoice("fileDeclaresAnotherName", 2) == 1 {
			// the project name is the one the caller requested (p), whatever `name:` the file carries
			implicit["name"] = "fromfile"
			explicit["name"] = "fromfile"
			different["name"] = "fromfile"
		}
		diffCheck = func(m map[string]any) bool {
			r, _ := m[kind].(map[string]any)["r"].(map[string]any)
			return r["name"] == any(v)
		}
	case 2: // external resources keep their key as name
		kind := []string{"networks", "volumes", "secrets", "configs"}[vrtChoice("kind", 4)]
		implicit = mk(c11Svc(nil), map[string]any{kind: map[string]any{"r": map[string]any{"external": true}}})
		explicit = mk(c11Svc(nil), map[string]any{kind: map[string]any{"r": map[string]any{"external": true, "name": "r"}}})
	case 3: // links / volumes_from / service: namespaces imply depends_on
		src := vrtChoice("source", 4)
		dep := map[string]any{"condition": "service_started", "required": true}
		extra := map[string]any{}
		switch src {
		case 0:
			extra["links"] = []any{"data"}
			dep["restart"] = true
		case 1:
			extra["volumes_from"] = []any{[]string{"data", "data:ro", "data:rw"}[vrtChoice("mode", 3)]}
			dep["restart"] = false
		case 2:
			extra["network_mode"] = "service:data"
			dep["restart"] = true
		case 3:
			extra[[]string{"ipc", "pid", "uts"}[vrtChoice("ns", 3)]] = "service:data"
			dep["restart"] = true
		}
		// the other namespace attributes next to it: absent, a plain value, or null (the schema lets `pid` be null)
		switch vrtChoice("otherNamespace", 3) {
		case 1:
			if _, has := extra["pid"]; !has {
				extra["pid"] = nil
			}
		case 2:
			if _, has := extra["ipc"]; !has {
				extra["ipc"] = "host"
			}
		}
		implicit = mk(c11Svc(extra), nil)
		ex := map[string]any{}
		for k, e := range extra {
			ex[k] = e
		}
		ex["depends_on"] = map[string]any{"data": dep}
		explicit = mk(c11Svc(ex), nil)
		// declared entry unchanged
		df := map[string]any{}
		for k, e := range extra {
			df[k] = e
		}
		df["depends_on"] = map[string]any{"data": map[string]any{"condition": "service_healthy", "required": false}}
		different = mk(c11Svc(df), nil)
		diffCheck = func(m map[string]any) bool {
			d, _ := tcSvc(m, c11Name)["depends_on"].(map[string]any)["data"].(map[string]any)
			_, hasRestart := d["restart"]
			return d["condition"] == any("service_healthy") && d["required"] == any(false) && !hasRestart
		}
	case 4: // build context / dockerfile
		implicit = mk(c11Svc(map[string]any{"build": map[string]any{"target": "t"}}), nil)
		explicit = mk(c11Svc(map[string]any{"build": map[string]any{"target": "t", "context": ".", "dockerfile": "Dockerfile"}}), nil)
		different = mk(c11Svc(map[string]any{"build": map[string]any{"target": "t", "context": "/c" + v, "dockerfile": "D" + v}}), nil)
		diffCheck = func(m map[string]any) bool {
			b, _ := tcSvc(m, c11Name)["build"].(map[string]any)
			return b["context"] == any("/c"+v) && b["dockerfile"] == any("D"+v)
		}
	case 5: // dockerfile_inline: no default dockerfile
		implicit = mk(c11Svc(map[string]any{"build": map[string]any{"dockerfile_inline": "FROM x"}}), nil)
		explicit = mk(c11Svc(map[string]any{"build": map[string]any{"dockerfile_inline": "FROM x", "context": "."}}), nil)
		diffCheck = nil
	case 6: // ports protocol / mode
		implicit = mk(c11Svc(map[string]any{"ports": []any{map[string]any{"target": 80}}}), nil)
		explicit = mk(c11Svc(map[string]any{"ports": []any{map[string]any{"target": 80, "protocol": "tcp", "mode": "ingress"}}}), nil)
		different = mk(c11Svc(map[string]any{"ports": []any{map[string]any{"target": 80, "protocol": "udp", "mode": "host"}}}), nil)
		diffCheck = func(m map[string]any) bool {
			l, _ := tcSvc(m, c11Name)["ports"].([]any)
			if len(l) != 1 {
				return false
			}
			p, _ := l[0].(map[string]any)
			return p["protocol"] == any("udp") && p["mode"] == any("host")
		}
	case 7: // secret target
		top := map[string]any{"secrets": map[string]any{"sec": map[string]any{"file": "/f"}}}
		implicit = mk(c11Svc(map[string]any{"secrets": []any{map[string]any{"source": "sec"}}}), top)
		explicit = mk(c11Svc(map[string]any{"secrets": []any{map[string]any{"source": "sec", "target": "/run/secrets/sec"}}}), top)
		different = mk(c11Svc(map[string]any{"secrets": []any{map[string]any{"source": "sec", "target": "/t" + v}}}), top)
		diffCheck = func(m map[string]any) bool {
			l, _ := tcSvc(m, c11Name)["secrets"].([]any)
			if len(l) != 1 {
				return false
			}
			p, _ := l[0].(map[string]any)
			return p["target"] == any("/t"+v)
		}
	case 8: // depends_on required / condition
		implicit = mk(c11Svc(map[string]any{"depends_on": map[string]any{"o": map[string]any{"condition": "service_started"}}}), nil)
		explicit = mk(c11Svc(map[string]any{"depends_on": map[string]any{"o": map[string]any{"condition": "service_started", "required": true}}}), nil)
		different = mk(c11Svc(map[string]any{"depends_on": map[string]any{"o": map[string]any{"condition": "service_healthy", "required": false}}}), nil)
		diffCheck = func(m map[string]any) bool {
			d, _ := tcSvc(m, c11Name)["depends_on"].(map[string]any)["o"].(map[string]any)
			return d["condition"] == any("service_healthy") && d["required"] == any(false)
		}
	case 9: // env_file required
		implicit = mk(c11Svc(map[string]any{"env_file": []any{map[string]any{"path": "/e" + v}}}), nil)
		explicit = mk(c11Svc(map[string]any{"env_file": []any{map[string]any{"path": "/e" + v, "required": true}}}), nil)
		different = mk(c11Svc(map[string]any{"env_file": []any{map[string]any{"path": "/e" + v, "required": false}}}), nil)
		diffCheck = func(m map[string]any) bool {
			l, _ := tcSvc(m, c11Name)["env_file"].([]any)
			if len(l) != 1 {
				return false
			}
			p, _ := l[0].(map[string]any)
			return p["required"] == any(false)
		}
	case 10: // device request count
		dev := func(extra map[string]any) map[string]any {
			d := map[string]any{"capabilities": []any{"gpu"}}
			for k, e := range extra {
				d[k] = e
			}
			return map[string]any{"deploy": map[string]any{"resources": map[string]any{"reservations": map[string]any{"devices": []any{d}}}}}
		}
		implicit = mk(c11Svc(dev(nil)), nil)
		explicit = mk(c11Svc(dev(map[string]any{"count": "all"})), nil)
		different = mk(c11Svc(dev(map[string]any{"count": 2})), nil)
		diffCheck = func(m map[string]any) bool {
			dp, _ := tcSvc(m, c11Name)["deploy"].(map[string]any)
			rs, _ := dp["resources"].(map[string]any)
			rv, _ := rs["reservations"].(map[string]any)
			l, _ := rv["devices"].([]any)
			if len(l) != 1 {
				return false
			}
			d, _ := l[0].(map[string]any)
			return d["count"] == any(2)
		}
	case 12: // an empty networks declaration still means the default network
		empty := []any{[]any{}, map[string]any{}}[vrtChoice("emptyKind", 2)]
		implicit = mk(c11Svc(map[string]any{"networks": empty}), nil)
		explicit = mk(c11Svc(map[string]any{"networks": map[string]any{"default": nil}}), map[string]any{"networks": map[string]any{"default": map[string]any{"name": "p_default"}}})
		// no other service uses the default network
		other["network_mode"] = "none"
		data["network_mode"] = "none"
	case 13: // external: false is the default
		kind := []string{"networks", "volumes", "secrets", "configs"}[vrtChoice("kind", 4)]
		body := func(ext bool) map[string]any {
			o := map[string]any{}
			if kind == "secrets" || kind == "configs" {
				o["file"] = "/f"
			}
			if ext {
				o["external"] = false
			}
			return o
		}
		implicit = mk(c11Svc(nil), map[string]any{kind: map[string]any{"r": body(false)}})
		explicit = mk(c11Svc(nil), map[string]any{kind: map[string]any{"r": body(true)}})
		diffCheck = nil
		// compare names only: the explicit `external: false` may or may not be kept in the model
		load0 := func(doc map[string]any) (map[string]any, error) { return tcLoad(nil, nil, doc) }
		mi, ei := load0(implicit)
		me, ee := load0(explicit)
		vrtAssert("both-load", ei == nil && ee == nil)
		if ei == nil && ee == nil {
			ri, _ := mi[kind].(map[string]any)["r"].(map[string]any)
			re, _ := me[kind].(map[string]any)["r"].(map[string]any)
			vrtAssert("external-false-keeps-project-prefixed-name", ri["name"] == any("p_r") && re["name"] == any("p_r"))
			ext, _ := re["external"].(bool)
			vrtAssert("external-false-is-not-external", !ext)
		}
		return
	case 14: // port defaults next to every other port attribute
		extraAttr := []string{"", "app_protocol", "name", "host_ip", "published"}[vrtChoice("portAttr", 5)]
		port := func(explicitDefaults bool) map[string]any {
			o := map[string]any{"target": 80}
			switch extraAttr {
			case "app_protocol":
				o["app_protocol"] = "http"
			case "name":
				o["name"] = "web"
			case "host_ip":
				o["host_ip"] = "127.0.0.1"
			case "published":
				o["published"] = "8080"
			}
			if explicitDefaults {
				o["protocol"] = "tcp"
				o["mode"] = "ingress"
			}
			return o
		}
		implicit = mk(c11Svc(map[string]any{"ports": []any{port(false)}}), nil)
		explicit = mk(c11Svc(map[string]any{"ports": []any{port(true)}}), nil)
		d := port(true)
		d["protocol"] = "udp"
		d["mode"] = "host"
		different = mk(c11Svc(map[string]any{"ports": []any{d}}), nil)
		diffCheck = func(m map[string]any) bool {
			l, _ := tcSvc(m, c11Name)["ports"].([]any)
			if len(l) != 1 {
				return false
			}
			o, _ := l[0].(map[string]any)
			return o["protocol"] == any("udp") && o["mode"] == any("host")
		}
	case 15: // resource names: <project>_<key> unless external, whichever way `external` is spelled; interpolation on or off
		kind := []string{"volumes", "networks", "secrets", "configs"}[vrtChoice("resourceKind", 4)]
		ext := []any{true, "true", false, "false", nil}[vrtChoice("external", 5)]
		res := func(withName bool) map[string]any {
			r := map[string]any{}
			if ext != nil {
				r["external"] = ext
			}
			isExt := ext == any(true) || ext == any("true")
			if (kind == "secrets" || kind == "configs") && !isExt {
				r["file"] = "/f"
			}
			if withName {
				if isExt {
					r["name"] = "res"
				} else {
					r["name"] = "p_res"
				}
			}
			return r
		}
		implicit = mk(c11Svc(nil), map[string]any{kind: map[string]any{"res": res(false)}})
		explicit = mk(c11Svc(nil), map[string]any{kind: map[string]any{"res": res(true)}})
		c11SkipInterpolation = vrtChoice("skipInterpolation", 2) == 1
	case 11: // short depends_on list
		implicit = mk(c11Svc(map[string]any{"depends_on": []any{"o", "data"}}), nil)
		explicit = mk(c11Svc(map[string]any{"depends_on": map[string]any{"o": map[string]any{"condition": "service_started", "required": true}, "data": map[string]any{"condition": "service_started", "required": true}}}), nil)
	}
	// origin of the attribute: main file, or an override file on top of a minimal main file
	skipI := c11SkipInterpolation
	c11SkipInterpolation = false
	opts := func(o *Options) { o.SkipInterpolation = skipI }
	load := func(doc map[string]any) (map[string]any, error) {
		if vrtParam("ORIGIN", 0) == 1 {
			base := map[string]any{"services": map[string]any{c11Name: map[string]any{"image": "i"}}}
			return tcLoad(nil, opts, base, doc)
		}
		return tcLoad(nil, opts, doc)
	}
	mi, ei := load(implicit)
	me, ee := load(explicit)
	vrtObserve("ei", ei != nil)
	vrtObserve("ee", ee != nil)
	vrtAssert("both-load", ei == nil && ee == nil)
	if ei != nil || ee != nil {
		return
	}
	vrtObserve("implicit", mi)
	vrtAssert("implicit-equals-explicit", vrtDeepEqual(mi, me))
	if different != nil && diffCheck != nil {
		md, ed := load(different)
		vrtAssert("different-loads", ed == nil)
		if ed == nil {
			vrtAssert("explicit-value-kept", diffCheck(md))
		}
	}
}
