package loader

import (
	"context"

	"github.com/compose-spec/compose-go/v2/paths"
	"github.com/compose-spec/compose-go/v2/types"
)

// Identities stated by the properties, checked over the schema-driven example documents of
// gen_examples.go. Only documents that load on their own are in scope (vrtAssume).

func genBase() (genSite, string, map[string]any) {
	site, attr, value, _ := genPick("v1", "10", "1s")
	genFiles()
	return site, attr, genDoc(site, attr, value)
}

// genLoadIn loads one document as the main file of a project whose directory is dir.
func genLoadIn(dir string, doc map[string]any) (*types.Project, error) {
	return LoadWithContext(context.Background(), types.ConfigDetails{
		WorkingDir:  dir,
		ConfigFiles: []types.ConfigFile{{Filename: dir + "/compose.yaml", Config: doc}},
		Environment: types.Mapping{},
	}, func(o *Options) {
		o.SetProjectName("p", true)
	})
}

func genFilesIn(dir string) {
	vrtFile(dir+"/v1", "K=v\n")
	vrtFile(dir+"/10", "K=v\n")
	vrtFile(dir+"/1s", "K=v\n")
}

func genDocCopy(d map[string]any) map[string]any { return genCopy(d).(map[string]any) }

func genSameProject(cls string, p1, p2 *types.Project) {
	vrtAssert("same-services#"+cls, vrtDeepEqual(any(p1.Services), any(p2.Services)))
	vrtAssert("same-networks#"+cls, vrtDeepEqual(any(p1.Networks), any(p2.Networks)))
	vrtAssert("same-volumes#"+cls, vrtDeepEqual(any(p1.Volumes), any(p2.Volumes)))
	vrtAssert("same-secrets#"+cls, vrtDeepEqual(any(p1.Secrets), any(p2.Secrets)))
	vrtAssert("same-configs#"+cls, vrtDeepEqual(any(p1.Configs), any(p2.Configs)))
}

// genEquivProject: as genSameProject, a nil list or mapping being the same as an empty one
// (`cap_add: []` is rendered as nothing).
func genEquivProject(cls string, p1, p2 *types.Project) {
	vrtAssert("same-services#"+cls, vrtEquivalent(any(p1.Services), any(p2.Services)))
	vrtAssert("same-networks#"+cls, vrtEquivalent(any(p1.Networks), any(p2.Networks)))
	vrtAssert("same-volumes#"+cls, vrtEquivalent(any(p1.Volumes), any(p2.Volumes)))
	vrtAssert("same-secrets#"+cls, vrtEquivalent(any(p1.Secrets), any(p2.Secrets)))
	vrtAssert("same-configs#"+cls, vrtEquivalent(any(p1.Configs), any(p2.Configs)))
}

// C02: the outcome does not depend on the order of map ranges inside the library.
func VerifGenOrder() {
	site, attr, doc := genBase()
	mode := []int{1, 3, 4}[vrtChoice("order", 3)]
	p1, e1 := tcLoadProject(types.Mapping{}, nil, genDocCopy(doc))
	var y1 map[string]any
	if e1 == nil {
		b, err := p1.MarshalYAML()
		vrtAssert("renders", err == nil)
		y1, _ = vrtDecodeRendered(b, false)
	}
	vrtMapOrder(mode)
	p2, e2 := tcLoadProject(types.Mapping{}, nil, genDocCopy(doc))
	var y2 map[string]any
	if e2 == nil {
		b, err := p2.MarshalYAML()
		vrtAssert("renders-again", err == nil)
		y2, _ = vrtDecodeRendered(b, false)
	}
	vrtMapOrder(0)
	vrtObserve("err", e1 != nil)
	cls := site.section + "." + attr
	vrtAssert("same-outcome#"+cls, (e1 != nil) == (e2 != nil))
	if e1 != nil || e2 != nil {
		return
	}
	genSameProject(cls, p1, p2)
	vrtAssert("same-rendering#"+cls, vrtDeepEqual(any(y1), any(y2)))
}

// C04: what a later file does not mention is preserved; an attribute introduced by a later file is merged in.
func VerifGenPreserve() {
	site, attr, doc := genBase()
	vrtAssume(!(site.section == "services" && attr == "hostname"))
	cls := site.section + "." + attr
	// A: one file holding everything
	a := genDocCopy(doc)
	a["services"].(map[string]any)[genSvc].(map[string]any)["hostname"] = "own"
	pa, ea := tcLoadProject(types.Mapping{}, nil, a)
	vrtObserve("err", ea != nil)
	vrtAssume(ea == nil)
	// B: the attribute in the first file, an unrelated attribute in the second
	h := map[string]any{"services": map[string]any{genSvc: map[string]any{"hostname": "own"}}}
	pb, eb := tcLoadProject(types.Mapping{}, nil, genDocCopy(doc), h)
	vrtAssert("later-file-not-mentioning-loads#"+cls, eb == nil)
	if eb == nil {
		genSameProject("later-file-does-not-mention:"+cls, pa, pb)
	}
	// C: the attribute introduced by the second file
	first := genDocCopy(a)
	second := map[string]any{}
	switch site.section {
	case "services":
		s := first["services"].(map[string]any)[genSvc].(map[string]any)
		v := s[attr]
		if attr == "image" {
			s["build"] = "."
			a2 := genDocCopy(a)
			a2["services"].(map[string]any)[genSvc].(map[string]any)["build"] = "."
			var e error
			pa, e = tcLoadProject(types.Mapping{}, nil, a2)
			vrtAssume(e == nil)
		}
		delete(s, attr)
		second["services"] = map[string]any{genSvc: map[string]any{attr: v}}
	default:
		r := first[site.section].(map[string]any)[genRes].(map[string]any)
		v := r[attr]
		delete(r, attr)
		if len(r) == 0 && (site.section == "secrets" || site.section == "configs") {
			return // the first file alone would not be a valid document
		}
		second[site.section] = map[string]any{genRes: map[string]any{attr: v}}
	}
	pc, ec := tcLoadProject(types.Mapping{}, nil, first, second)
	if ec != nil {
		vrtObserve("msgC", ec.Error())
	}
	vrtAssert("later-file-introducing-loads#"+cls, ec == nil)
	if ec == nil {
		genSameProject("later-file-introduces:"+cls, pa, pc)
	}
}

// C05: a service extending another without overriding the attribute has the base's value.
func VerifGenExtends() {
	site, attr, doc := genBase()
	vrtAssume(site.section == "services" && attr != "hostname" && attr != "extends")
	cls := attr
	a := genDocCopy(doc)
	a["services"].(map[string]any)[genSvc].(map[string]any)["hostname"] = "own"
	pa, ea := tcLoadProject(types.Mapping{}, nil, a)
	vrtObserve("err", ea != nil)
	vrtAssume(ea == nil)
	want := pa.Services[genSvc]
	where := vrtChoice("baseIn", 3) // same file, another file of the project directory, a file of a sub-directory
	b := genDocCopy(doc)
	ext := map[string]any{"service": genSvc}
	switch where {
	case 1:
		vrtYamlFile(vrtRoot()+"/w/base.yaml", genDocCopy(doc))
		ext["file"] = "base.yaml"
	case 2:
		// inherited relative paths resolve against the base file's directory: the expected service is the one
		// the same document yields when loaded as a project of that directory
		if attr == "build" {
			// a build without context takes the default context when the extending project is normalised, i.e.
			// the project directory, not the base file's directory (pinned by the suite: TestLoadExtendsSameFile)
			bm, isMap := doc["services"].(map[string]any)[genSvc].(map[string]any)["build"].(map[string]any)
			vrtAssume(isMap && bm["context"] != nil)
		}
		sub := vrtRoot() + "/w/sub"
		genFilesIn(sub)
		vrtYamlFile(sub+"/base.yaml", genDocCopy(doc))
		ext["file"] = "sub/base.yaml"
		ps, es := genLoadIn(sub, genDocCopy(a))
		vrtAssume(es == nil)
		want = ps.Services[genSvc]
	}
	b["services"].(map[string]any)["t"] = map[string]any{"extends": ext, "hostname": "own"}
	pb, eb := tcLoadProject(types.Mapping{}, nil, b)
	if eb != nil {
		vrtObserve("msg", eb.Error())
	}
	vrtAssert("extending-service-loads#"+cls, eb == nil)
	if eb != nil {
		return
	}
	got := pb.Services["t"]
	vrtAssert("no-extends-left#"+cls, got.Extends == nil)
	got.Name = want.Name
	vrtObserve("got", got)
	vrtAssert("extending-equals-base-plus-own#"+cls, vrtDeepEqual(any(got), any(want)))
	// the base itself is unchanged by being extended
	p0, e0 := tcLoadProject(types.Mapping{}, nil, genDocCopy(doc))
	if e0 == nil {
		vrtAssert("base-unchanged-by-extension#"+cls, vrtDeepEqual(any(pb.Services[genSvc]), any(p0.Services[genSvc])))
	}
}

// C06: including a file equals pasting its resolved content.
func VerifGenInclude() {
	site, attr, doc := genBase()
	cls := site.section + "." + attr
	a := genDocCopy(doc)
	a["services"].(map[string]any)["own"] = map[string]any{"image": "i"}
	pa, ea := tcLoadProject(types.Mapping{}, nil, a)
	vrtObserve("err", ea != nil)
	vrtAssume(ea == nil)
	incPath := "inc.yaml"
	if k := vrtChoice("includedIn", 2+vrtParam("ODDDIRS", 0)); k >= 1 {
		// an included file of a sub-directory is a project of that directory - whatever the directory is called
		// (names that look like a home directory or like a remote reference once they lead a relative path)
		dir := []string{"", "sub", "~sub", "github.com/acme"}[k]
		if k >= 2 {
			cls += "@" + []string{"", "", "tilde-directory", "remote-looking-directory"}[k]
		}
		sub := vrtRoot() + "/w/" + dir
		genFilesIn(sub)
		incPath = dir + "/inc.yaml"
		var es error
		pa, es = genLoadIn(sub, genDocCopy(a))
		vrtAssume(es == nil)
	}
	vrtYamlFile(vrtRoot()+"/w/"+incPath, genDocCopy(doc))
	main := map[string]any{"include": []any{incPath}, "services": map[string]any{"own": map[string]any{"image": "i"}}}
	pb, eb := tcLoadProject(types.Mapping{}, nil, main)
	if eb != nil {
		vrtObserve("msg", eb.Error())
	}
	vrtAssert("including-loads#"+cls, eb == nil)
	if eb == nil {
		genSameProject("include-equals-paste:"+cls, pa, pb)
	}
}

// C08: supplying a string leaf through a variable gives the same model as the literal.
func VerifGenInterp() {
	site, attr, value, _ := genPick("v1", "10", "1s")
	genFiles()
	doc := genDoc(site, attr, value)
	cls := site.section + "." + attr
	pa, ea := tcLoadProject(types.Mapping{}, nil, doc)
	vrtObserve("err", ea != nil)
	vrtAssume(ea == nil)
	// the same example with its leaves written as variables (keys are not interpolated and stay literal)
	root := vrtSchemaTree()
	g := &gen{root: root, atom: "${V}", num: "${N}", dur: "${D}", key: genKey}
	defs, _ := root["definitions"].(map[string]any)
	def, _ := defs[site.def].(map[string]any)
	props, _ := def["properties"].(map[string]any)
	pm, _ := props[attr].(map[string]any)
	ex := g.examples(pm, 0)
	// the choice made by genPick is replayed by index
	idx := genIndexOf(value, (&gen{root: root, atom: "v1", num: "10", dur: "1s", key: genKey}).examples(pm, 0))
	vrtAssume(idx >= 0 && idx < len(ex))
	pb, eb := tcLoadProject(types.Mapping{"V": "v1", "N": "10", "D": "1s"}, nil, genDoc(site, attr, ex[idx]))
	if eb != nil {
		vrtObserve("msg", eb.Error())
	}
	vrtAssert("through-variable-loads#"+cls, eb == nil)
	if eb == nil {
		genSameProject("through-variable:"+cls, pa, pb)
	}
}

func genIndexOf(v any, l []any) int {
	for i, e := range l {
		if vrtDeepEqual(v, e) {
			return i
		}
	}
	return -1
}

// C09 (and C11: the rendering spells every default out): render, reload, same project.
func VerifGenRoundTrip() {
	json := vrtChoice("json", 2) == 1
	genNoExt = json
	site, attr, doc := genBase()
	cls := site.section + "." + attr
	p1, err := tcLoadProject(types.Mapping{}, nil, doc)
	vrtObserve("err1", err != nil)
	vrtAssume(err == nil)
	var b []byte
	if json {
		b, err = p1.MarshalJSON()
	} else {
		b, err = p1.MarshalYAML()
	}
	vrtAssert("rendering-succeeds#"+cls, err == nil)
	if err != nil {
		return
	}
	tree, ok := vrtDecodeRendered(b, json)
	vrtAssert("rendering-is-a-document#"+cls, ok)
	if !ok {
		return
	}
	p2, err2 := tcLoadProject(types.Mapping{}, nil, tree)
	if err2 != nil {
		vrtObserve("msg", err2.Error())
	}
	vrtAssert("rendering-reloads#"+cls, err2 == nil)
	if err2 != nil {
		return
	}
	vrtAssert("same-name", p1.Name == p2.Name)
	if json {
		for k, s := range p1.Services {
			s.Extensions = nil
			p1.Services[k] = s
		}
		for k, s := range p2.Services {
			s.Extensions = nil
			p2.Services[k] = s
		}
	}
	vrtObserve("svc1", p1.Services)
	genEquivProject("round-trip:"+cls, p1, p2)
	var b2 []byte
	if json {
		b2, err = p2.MarshalJSON()
	} else {
		b2, err = p2.MarshalYAML()
	}
	vrtAssert("second-rendering-succeeds#"+cls, err == nil)
	tree2, ok2 := vrtDecodeRendered(b2, json)
	vrtAssert("identical-second-rendering#"+cls, ok2 && vrtDeepEqual(any(tree), any(tree2)))
}

// C12: resolving an already resolved model changes nothing.
func VerifGenResolveTwice() {
	site, attr, doc := genBase()
	cls := site.section + "." + attr
	m, err := tcLoad(types.Mapping{}, nil, doc)
	vrtObserve("err", err != nil)
	vrtAssume(err == nil)
	again := genDocCopy(m)
	err = paths.ResolveRelativePaths(again, vrtRoot()+"/w", nil)
	vrtAssert("second-resolution-succeeds#"+cls, err == nil)
	vrtObserve("model", m)
	vrtAssert("second-resolution-changes-nothing#"+cls, vrtDeepEqual(any(m), any(again)))
}

// C05 (and C04): "the extending service's own attributes applied on top by the override rules" - a service that
// extends `s` and sets the attribute itself (to the next example) equals the service obtained by merging a file
// that defines it like `s` with a file that sets the attribute: extends and file merge use the same rules.
// Registered with PAIR=1 (genSecond is the own value).
func VerifGenExtendsOwn() {
	site, attr, doc := genBase()
	vrtAssume(site.section == "services" && attr != "extends" && genSecond != nil)
	cls := attr
	child := map[string]string{"s": "t", "s.x": "t.y", "nx-s": "nx-t", "x-s": "x-t"}[genSvc]
	base := doc["services"].(map[string]any)[genSvc].(map[string]any)
	// A: two files merged
	f1 := genDocCopy(doc)
	delete(f1["services"].(map[string]any), "a2")
	f1["services"].(map[string]any)[child] = genCopy(base)
	f2 := map[string]any{"services": map[string]any{child: map[string]any{attr: genCopy(genSecond)}}}
	pa, ea := tcLoadProject(types.Mapping{}, nil, f1, f2)
	vrtObserve("err", ea != nil)
	if ea != nil {
		vrtObserve("msgA", ea.Error())
	}
	vrtAssume(ea == nil)
	// B: one file, extends
	b := genDocCopy(doc)
	delete(b["services"].(map[string]any), "a2")
	b["services"].(map[string]any)[child] = map[string]any{"extends": map[string]any{"service": genSvc}, attr: genCopy(genSecond)}
	pb, eb := tcLoadProject(types.Mapping{}, nil, b)
	if eb != nil {
		vrtObserve("msg", eb.Error())
	}
	vrtAssert("extending-with-own-value-loads#"+cls, eb == nil)
	if eb != nil {
		return
	}
	got, want := pb.Services[child], pa.Services[child]
	vrtObserve("got", got)
	vrtAssert("own-value-applied-by-the-override-rules#"+cls, vrtDeepEqual(any(got), any(want)))
}

// C08: a typed (numeric) position that also admits a string takes the same value from a variable as from the
// literal number. The example is generated twice: with numbers, and with `${ONE}` / `${ZERO}` / `${NEG}` in their place
// wherever the schema lists "string" next to "number" / "integer".
func VerifGenInterpNum() {
	site, attr, value, _ := genPick("v1", "10", "1s")
	genFiles()
	doc := genDoc(site, attr, value)
	cls := site.section + "." + attr
	root := vrtSchemaTree()
	defs, _ := root["definitions"].(map[string]any)
	def, _ := defs[site.def].(map[string]any)
	props, _ := def["properties"].(map[string]any)
	pm, _ := props[attr].(map[string]any)
	plain := (&gen{root: root, atom: "v1", num: "10", dur: "1s", key: genKey}).examples(pm, 0)
	// the number arrives through a variable, or is written as the string the variable would expand to
	quoted := vrtChoice("writtenAsString", 2) == 1
	vars := (&gen{root: root, atom: "v1", num: "10", dur: "1s", key: genKey, numVar: !quoted, numStr: quoted}).examples(pm, 0)
	idx := genIndexOf(value, plain)
	vrtAssume(idx >= 0 && idx < len(vars))
	// only examples where something was replaced
	vrtAssume(!vrtDeepEqual(plain[idx], vars[idx]))
	pa, ea := tcLoadProject(types.Mapping{}, nil, doc)
	vrtObserve("err", ea != nil)
	vrtAssume(ea == nil)
	pb, eb := tcLoadProject(types.Mapping{"ONE": "1", "ZERO": "0", "NEG": "-1"}, nil, genDoc(site, attr, vars[idx]))
	if eb != nil {
		vrtObserve("msg", eb.Error())
	}
	vrtAssert("number-through-variable-loads#"+cls, eb == nil)
	if eb == nil {
		genSameProject("number-through-variable:"+cls, pa, pb)
	}
}

// Names are opaque (C12, C11, C03, C08: every per-attribute rule is stated for "a service", "a volume", ... whatever it
// is called): the same attribute value under a service or resource with a dotted name, a name containing `x-` or a name
// starting with `x-` loads to the same definition as under the plain name - same resolved paths, same defaults, same
// canonical forms, same casts.
func VerifGenNames() {
	site, attr, value, _ := genPick("v1", "10", "1s")
	genFiles()
	cls := site.section + "." + attr
	docA := genDoc(site, attr, genCopy(value))
	plainSvc, plainRes := genSvc, genRes
	k := vrtChoice("otherNames", 3)
	genSvc = []string{"s.x", "nx-s", "x-s"}[k]
	genRes = []string{"r.x", "nx-r", "x-r"}[k]
	docB := genDoc(site, attr, genCopy(value))
	otherSvc, otherRes := genSvc, genRes
	genSvc, genRes = plainSvc, plainRes
	ma, ea := tcLoad(types.Mapping{}, nil, genDocCopy(docA))
	vrtObserve("err", ea != nil)
	vrtAssume(ea == nil)
	mb, eb := tcLoad(types.Mapping{}, nil, genDocCopy(docB))
	if eb != nil {
		vrtObserve("msg", eb.Error())
	}
	vrtAssert("loads-under-another-name#"+cls, eb == nil)
	if eb != nil {
		return
	}
	body := func(m map[string]any, section, name string) any {
		sec, _ := m[section].(map[string]any)
		b, _ := sec[name].(map[string]any)
		if b == nil {
			return sec[name]
		}
		out := genClone(b)
		// the default name derives from the key (prefixed by the project name unless the resource is external)
		if out["name"] == any("p_"+name) || out["name"] == any(name) {
			delete(out, "name")
		}
		return out
	}
	if site.section == "services" {
		vrtObserve("body", body(ma, "services", plainSvc))
		vrtAssert("same-definition-under-another-name#"+cls, vrtDeepEqual(body(ma, "services", plainSvc), body(mb, "services", otherSvc)))
		pa, e1 := tcLoadProject(types.Mapping{}, nil, docA)
		pb, e2 := tcLoadProject(types.Mapping{}, nil, docB)
		vrtAssert("same-outcome-under-another-name#"+cls, (e1 != nil) == (e2 != nil))
		if e1 == nil && e2 == nil {
			sa, sb := pa.Services[plainSvc], pb.Services[otherSvc]
			sa.Name, sb.Name = "", ""
			vrtAssert("same-service-under-another-name#"+cls, vrtDeepEqual(any(sa), any(sb)))
		}
		return
	}
	vrtObserve("body", body(ma, site.section, plainRes))
	vrtAssert("same-definition-under-another-name#"+cls, vrtDeepEqual(body(ma, site.section, plainRes), body(mb, site.section, otherRes)))
}
