package loader

import (
	"sort"
	"strings"

	"github.com/compose-spec/compose-go/v2/interpolation"
	"github.com/compose-spec/compose-go/v2/types"
)

// C08: interpolation touches only string values and is type-transparent.

func c08Contains(s, sub string) bool {
	for i := 0; i+len(sub) <= len(s); i++ {
		if s[i:i+len(sub)] == sub {
			return true
		}
	}
	return false
}

func c08Lower(s string) string {
	b := []byte(s)
	for i, c := range b {
		if c >= 'A' && c <= 'Z' {
			b[i] = c + 32
		}
	}
	return string(b)
}

// reference: YAML 1.1 booleans
func c08RefBool(s string) (bool, bool) {
	switch c08Lower(s) {
	case "true", "y", "yes", "on":
		return true, true
	case "false", "n", "no", "off":
		return false, true
	}
	return false, false
}

// reference: decimal integer with optional sign, no other characters
func c08RefInt(s string) (int, bool) {
	if s == "" {
		return 0, false
	}
	i, neg := 0, false
	if s[0] == '-' || s[0] == '+' {
		neg = s[0] == '-'
		i = 1
	}
	if i >= len(s) {
		return 0, false
	}
	n := 0
	for ; i < len(s); i++ {
		c := s[i]
		if c < '0' || c > '9' {
			return 0, false
		}
		n = n*10 + int(c-'0')
	}
	if neg {
		n = -n
	}
	return n, true
}

type c08Path struct {
	name string // path as it must appear in error messages
	put  func(doc map[string]any, v any)
	get  func(p *types.Project) (any, bool) // typed value, present
}

// resource names may contain dots (paths are built with escaped segments)
var c08SvcName, c08NetName = "s", "n"

func c08Svc(doc map[string]any) map[string]any {
	return doc["services"].(map[string]any)[c08SvcName].(map[string]any)
}

var c08Bools = []c08Path{
	{"services.s.privileged", func(d map[string]any, v any) { c08Svc(d)["privileged"] = v }, func(p *types.Project) (any, bool) { return p.Services[c08SvcName].Privileged, true }},
	{"services.s.read_only", func(d map[string]any, v any) { c08Svc(d)["read_only"] = v }, func(p *types.Project) (any, bool) { return p.Services[c08SvcName].ReadOnly, true }},
	{"services.s.tty", func(d map[string]any, v any) { c08Svc(d)["tty"] = v }, func(p *types.Project) (any, bool) { return p.Services[c08SvcName].Tty, true }},
	{"services.s.stdin_open", func(d map[string]any, v any) { c08Svc(d)["stdin_open"] = v }, func(p *types.Project) (any, bool) { return p.Services[c08SvcName].StdinOpen, true }},
	{"services.s.init", func(d map[string]any, v any) { c08Svc(d)["init"] = v }, func(p *types.Project) (any, bool) {
		x := p.Services[c08SvcName].Init
		if x == nil {
			return nil, false
		}
		return *x, true
	}},
	{"services.s.oom_kill_disable", func(d map[string]any, v any) { c08Svc(d)["oom_kill_disable"] = v }, func(p *types.Project) (any, bool) { return p.Services[c08SvcName].OomKillDisable, true }},
	{"services.s.healthcheck.disable", func(d map[string]any, v any) { c08Svc(d)["healthcheck"] = map[string]any{"disable": v} }, func(p *types.Project) (any, bool) {
		h := p.Services[c08SvcName].HealthCheck
		if h == nil {
			return nil, false
		}
		return h.Disable, true
	}},
	{"services.s.volumes.[].read_only", func(d map[string]any, v any) {
		c08Svc(d)["volumes"] = []any{map[string]any{"type": "bind", "source": "/a", "target": "/b", "read_only": v}}
	}, func(p *types.Project) (any, bool) {
		vs := p.Services[c08SvcName].Volumes
		if len(vs) != 1 {
			return nil, false
		}
		return vs[0].ReadOnly, true
	}},
	{"networks.n.internal", func(d map[string]any, v any) {
		d["networks"] = map[string]any{c08NetName: map[string]any{"internal": v}}
	}, func(p *types.Project) (any, bool) { return p.Networks[c08NetName].Internal, true }},
	{"networks.n.attachable", func(d map[string]any, v any) {
		d["networks"] = map[string]any{c08NetName: map[string]any{"attachable": v}}
	}, func(p *types.Project) (any, bool) { return p.Networks[c08NetName].Attachable, true }},
	{"volumes.v.external", func(d map[string]any, v any) { d["volumes"] = map[string]any{"v": map[string]any{"external": v}} }, func(p *types.Project) (any, bool) { return bool(p.Volumes["v"].External), true }},
}

var c08Ints = []c08Path{
	{"services.s.scale", func(d map[string]any, v any) { c08Svc(d)["scale"] = v }, func(p *types.Project) (any, bool) {
		x := p.Services[c08SvcName].Scale
		if x == nil {
			return nil, false
		}
		return *x, true
	}},
	{"services.s.deploy.replicas", func(d map[string]any, v any) { c08Svc(d)["deploy"] = map[string]any{"replicas": v} }, func(p *types.Project) (any, bool) {
		dp := p.Services[c08SvcName].Deploy
		if dp == nil || dp.Replicas == nil {
			return nil, false
		}
		return *dp.Replicas, true
	}},
	{"services.s.pids_limit", func(d map[string]any, v any) { c08Svc(d)["pids_limit"] = v }, func(p *types.Project) (any, bool) { return int(p.Services[c08SvcName].PidsLimit), true }},
	{"services.s.cpu_shares", func(d map[string]any, v any) { c08Svc(d)["cpu_shares"] = v }, func(p *types.Project) (any, bool) { return int(p.Services[c08SvcName].CPUShares), true }},
	{"services.s.oom_score_adj", func(d map[string]any, v any) { c08Svc(d)["oom_score_adj"] = v }, func(p *types.Project) (any, bool) { return int(p.Services[c08SvcName].OomScoreAdj), true }},
	{"services.s.ulimits.nofile", func(d map[string]any, v any) { c08Svc(d)["ulimits"] = map[string]any{"nofile": v} }, func(p *types.Project) (any, bool) {
		u := p.Services[c08SvcName].Ulimits["nofile"]
		if u == nil {
			return nil, false
		}
		return u.Single, true
	}},
	{"services.s.ulimits.nofile.soft", func(d map[string]any, v any) {
		c08Svc(d)["ulimits"] = map[string]any{"nofile": map[string]any{"soft": v, "hard": 9}}
	}, func(p *types.Project) (any, bool) {
		u := p.Services[c08SvcName].Ulimits["nofile"]
		if u == nil {
			return nil, false
		}
		return u.Soft, true
	}},
}

// VerifC08TypedVar: value through a variable == reference value; unconvertible => error naming the path.
func VerifC08TypedVar() {
	isBool := vrtChoice("type", 2) == 0
	var pth c08Path
	var s string
	if isBool {
		pth = c08Bools[vrtChoice("path", len(c08Bools))]
		s = vrtString("val", vrtParam("BL", 5), "truefalsynoT1")
	} else {
		pth = c08Ints[vrtChoice("path", len(c08Ints))]
		s = vrtString("val", vrtParam("IL", 3), "0123-+ a")
	}
	if vrtParam("DOTTED", 0) == 1 {
		c08SvcName, c08NetName = "web.api", "front.net"
	} else {
		c08SvcName, c08NetName = "s", "n"
	}
	form := vrtChoice("form", 3)
	text := "${V}"
	env := types.Mapping{"V": s}
	switch form {
	case 1:
		text = "${UNSET:-" + s + "}"
		// a default containing template syntax is C07's business
	case 2:
		// split: pre${V}post with V = the middle part
		if len(s) >= 2 {
			text = s[:1] + "${V}"
			env["V"] = s[1:]
		}
	}
	doc := map[string]any{"services": map[string]any{c08SvcName: map[string]any{"image": "i"}}}
	pth.put(doc, text)
	p, err := tcLoadProject(env, nil, doc)
	vrtObserve("err", err != nil)
	var want any
	ok := false
	if isBool {
		b, o := c08RefBool(s)
		want, ok = b, o
	} else {
		n, o := c08RefInt(s)
		want, ok = n, o
		if o && n < 0 && (pth.name == "services.s.scale" || pth.name == "services.s.deploy.replicas") {
			// negative counts: whether they are rejected later is not part of this property
			return
		}
	}
	if !ok {
		vrtCover("unconvertible")
		vrtAssert("unconvertible-is-error", err != nil)
		if err != nil {
			// the attribute name (last path segments) must appear; resource names may be escaped in the message
			tailName := pth.name
			for i := len(tailName) - 1; i >= 0; i-- {
				if tailName[i] == '.' {
					tailName = tailName[i+1:]
					break
				}
			}
			vrtAssert("error-names-path", c08Contains(err.Error(), tailName))
		}
		return
	}
	vrtCover("convertible")
	vrtAssert("convertible-loads", err == nil)
	if err != nil {
		vrtObserve("msg", err.Error())
		return
	}
	got, present := pth.get(p)
	vrtObserve("got", got)
	vrtAssert("typed-value-present", present)
	vrtAssert("typed-value-equals-literal", got == want)
}

// VerifC08Shape: keys, shape and non-string scalars are preserved; $$-escaping round-trips.
func VerifC08Shape() {
	a := vrtString("a", vrtParam("L", 3), "a${}1")
	b := vrtString("b", vrtParam("L2", 2), "a$")
	key := "k$" + vrtString("key", 1, "a$")
	esc := func(s string) string {
		o := ""
		for i := 0; i < len(s); i++ {
			if s[i] == '$' {
				o += "$$"
			} else {
				o += string(s[i])
			}
		}
		return o
	}
	mk := func(f func(string) string) map[string]any {
		return map[string]any{
			key: f(a),
			"m": map[string]any{key: []any{f(b), 1, true, nil, 1.5, map[string]any{"x": f(a)}}},
			"n": 7,
		}
	}
	out, err := interpolation.Interpolate(mk(esc), interpolation.Options{LookupValue: func(k string) (string, bool) { return "VAL", k == "a" }})
	vrtObserve("err", err != nil)
	vrtAssert("escaped-document-interpolates", err == nil)
	if err != nil {
		return
	}
	vrtObserve("out", out)
	vrtAssert("escape-roundtrip-and-shape", vrtDeepEqual(any(out), any(mk(func(s string) string { return s }))))
}

// VerifC08EscapePipeline: the document with every $ doubled, loaded with interpolation on,
// yields the model the original yields with interpolation off - including content that
// arrives from an extended file or an included file.
func VerifC08EscapePipeline() {
	w := vrtRoot() + "/w"
	a := "a" + vrtString("a", vrtParam("L", 2), "a$")
	esc := func(s string) string {
		o := ""
		for i := 0; i < len(s); i++ {
			if s[i] == '$' {
				o += "$$"
			} else {
				o += string(s[i])
			}
		}
		return o
	}
	origin := vrtChoice("origin", 3) // 0 main file, 1 extended file, 2 included file
	build := func(f func(string) string, dir string) map[string]any {
		svc := map[string]any{"image": "i", "hostname": f(a), "labels": map[string]any{"l": f(a)}, "command": []any{f(a)}}
		switch origin {
		case 1:
			vrtYamlFile(w+"/"+dir+"/base.yaml", map[string]any{"services": map[string]any{"b": svc}})
			return map[string]any{"services": map[string]any{"s": map[string]any{"extends": map[string]any{"file": dir + "/base.yaml", "service": "b"}}}}
		case 2:
			vrtYamlFile(w+"/"+dir+"/inc.yaml", map[string]any{"services": map[string]any{"s": svc}})
			return map[string]any{"include": []any{dir + "/inc.yaml"}, "services": map[string]any{"own": map[string]any{"image": "i"}}}
		}
		return map[string]any{"services": map[string]any{"s": svc}}
	}
	mOff, eOff := tcLoad(nil, func(o *Options) { o.SkipInterpolation = true }, build(func(s string) string { return s }, "off"))
	mOn, eOn := tcLoad(nil, nil, build(esc, "on"))
	vrtObserve("eOff", eOff != nil)
	vrtObserve("eOn", eOn != nil)
	if eOff != nil {
		return // "whenever the latter loads"
	}
	vrtAssert("escaped-loads", eOn == nil)
	if eOn != nil {
		return
	}
	vrtObserve("off", tcSvc(mOff, "s")["hostname"])
	vrtAssert("escaped-on-equals-original-off", vrtDeepEqual(tcSvc(mOff, "s")["hostname"], tcSvc(mOn, "s")["hostname"]) &&
		vrtDeepEqual(tcSvc(mOff, "s")["labels"], tcSvc(mOn, "s")["labels"]) && vrtDeepEqual(tcSvc(mOff, "s")["command"], tcSvc(mOn, "s")["command"]))
}

// VerifC08Extensions: the typed-attribute conversions apply to the attributes they name and to nothing else. For
// every pattern of the loader's own conversion table a look-alike path is built under an extension (top level
// `x-<first segment>` and `services.s.x-ext`), holding a string that reads as a boolean / number; it must come out
// of interpolation as the same string.
func VerifC08Extensions() {
	var pats []string
	for p := range interpolateTypeCastMapping {
		pats = append(pats, string(p))
	}
	sort.Strings(pats)
	part, parts := vrtParam("PART", 0), vrtParam("PARTS", 1)
	var mine []string
	for i, p := range pats {
		if i%parts == part {
			mine = append(mine, p)
		}
	}
	vrtAssume(len(mine) > 0)
	pat := mine[vrtChoice("pattern", len(mine))]
	leaf := []string{"true", "no", "12", "1.5"}[vrtChoice("leaf", 4)]
	segs := strings.Split(pat, ".")
	var build func(k int) any
	build = func(k int) any {
		if k == len(segs) {
			return leaf
		}
		switch segs[k] {
		case "*":
			return map[string]any{"k": build(k + 1)}
		case "[]":
			return []any{build(k + 1)}
		}
		return map[string]any{segs[k]: build(k + 1)}
	}
	var get func(v any, k int) any
	get = func(v any, k int) any {
		if k == len(segs) {
			return v
		}
		switch x := v.(type) {
		case map[string]any:
			if segs[k] == "*" {
				return get(x["k"], k+1)
			}
			return get(x[segs[k]], k+1)
		case []any:
			if len(x) == 1 {
				return get(x[0], k+1)
			}
		}
		return nil
	}
	where := vrtChoice("where", 2)
	doc := map[string]any{"services": map[string]any{"s": map[string]any{"image": "i"}}}
	if where == 0 {
		doc["x-"+segs[0]] = build(1)
	} else {
		// below a service: services.s.x-ext.<rest of the pattern after services.*>
		vrtAssume(len(segs) > 2 && segs[0] == "services")
		doc["services"].(map[string]any)["s"].(map[string]any)["x-ext"] = build(2)
	}
	m, err := tcLoad(types.Mapping{}, nil, doc)
	vrtObserve("err", err != nil)
	if err != nil {
		vrtObserve("msg", err.Error())
	}
	vrtAssert("extension-look-alike-loads", err == nil)
	if err != nil {
		return
	}
	var got any
	if where == 0 {
		got = get(m["x-"+segs[0]], 1)
	} else {
		got = get(tcSvc(m, "s")["x-ext"], 2)
	}
	vrtObserve("got", got)
	vrtAssert("extension-string-stays-a-string", got == any(leaf))
}

// VerifC08Ulimits: ulimits of a service and of its build take integers or strings (schema): a number supplied through
// a variable gives the same limits as the literal, in the single-value and in the soft/hard form.
func VerifC08Ulimits() {
	inBuild := vrtChoice("inBuild", 2) == 1
	pair := vrtChoice("softHard", 2) == 1
	mk := func(num any) map[string]any {
		var u any = map[string]any{"nofile": num}
		if pair {
			u = map[string]any{"nofile": map[string]any{"soft": num, "hard": num}}
		}
		s := map[string]any{"image": "i"}
		if inBuild {
			s["build"] = map[string]any{"context": "/ctx", "ulimits": u}
		} else {
			s["ulimits"] = u
		}
		return map[string]any{"services": map[string]any{"s": s}}
	}
	env := types.Mapping{"N": "1024"}
	pa, ea := tcLoadProject(env, nil, mk(1024))
	vrtAssert("literal-loads", ea == nil)
	if ea != nil {
		return
	}
	form := []any{"${N}", "1024", "${UNSET:-1024}"}[vrtChoice("form", 3)]
	pb, eb := tcLoadProject(env, nil, mk(form))
	vrtObserve("err", eb != nil)
	vrtAssert("number-through-variable-loads", eb == nil)
	if eb != nil {
		vrtObserve("msg", eb.Error())
		return
	}
	vrtAssert("same-limits", vrtDeepEqual(any(pa.Services["s"]), any(pb.Services["s"])))
}
