package loader

// C12 across loads and across projects of one load: a path is resolved against the directory of the file it is
// written in and the home directory of the load at hand - whatever was loaded before in the process, and whoever
// else in the same load refers to the same file.

// VerifC12Home: two loads in one process, each under its own HOME (or none).
func VerifC12Home() {
	homes := [][2]string{{"/home/u1", "/home/u2"}, {"/home/u2", "/home/u1"}, {"", "/home/u2"}}[vrtChoice("homes", 3)]
	doc := func() map[string]any {
		return map[string]any{"services": map[string]any{"s": map[string]any{"image": "i", "build": map[string]any{"context": "~/ctx"},
			"volumes": []any{"~/data:/d", map[string]any{"type": "bind", "source": "~/long", "target": "/l"}}}},
			"secrets": map[string]any{"k": map[string]any{"file": "~/key"}}}
	}
	for round := 0; round < 2; round++ {
		home := homes[round]
		vrtEnv("HOME", home)
		m, err := tcLoad(nil, nil, doc())
		vrtObserve("err", err != nil)
		if home == "" {
			// without a home directory `~` cannot be expanded: not asserted
			continue
		}
		vrtAssert("loads", err == nil)
		if err != nil {
			return
		}
		s := tcSvc(m, "s")
		b, _ := s["build"].(map[string]any)
		vols, _ := s["volumes"].([]any)
		vrtObserve("context", b["context"])
		vrtAssert("home-of-this-load#build", b["context"] == any(home+"/ctx"))
		vrtAssert("home-of-this-load#volumes", len(vols) == 2 && vols[0].(map[string]any)["source"] == any(home+"/data") && vols[1].(map[string]any)["source"] == any(home+"/long"))
		sec, _ := m["secrets"].(map[string]any)["k"].(map[string]any)
		vrtAssert("home-of-this-load#secret", sec["file"] == any(home+"/key"))
	}
}

// VerifC12SharedBase: one file extended both by the main project and by an included project in another directory:
// what each inherits is anchored at the extended file's directory.
func VerifC12SharedBase() {
	w := vrtRoot() + "/w"
	v := "x" + vrtString("v", vrtParam("VL", 1), "ab")
	vrtYamlFile(w+"/lib/base.yaml", map[string]any{"services": map[string]any{"b": map[string]any{"image": "i",
		"build":   map[string]any{"context": "./ctx" + v, "additional_contexts": map[string]any{"k": "../shared"}},
		"volumes": []any{"./data:/d"}}}})
	k := vrtChoice("includedDir", 2)
	incDir := []string{"inc", "deep/er"}[k]
	up := []string{"../", "../../"}[k]
	vrtYamlFile(w+"/"+incDir+"/compose.yaml", map[string]any{"services": map[string]any{
		"incsvc": map[string]any{"extends": map[string]any{"file": up + "lib/base.yaml", "service": "b"}, "hostname": "h"}}})
	main := map[string]any{"include": []any{incDir + "/compose.yaml"}}
	svcs := map[string]any{"plain": map[string]any{"image": "i"}}
	mainExtends := vrtChoice("mainAlsoExtends", 3) // 0 no, 1 yes, 2 twice
	if mainExtends >= 1 {
		svcs["own"] = map[string]any{"extends": map[string]any{"file": "lib/base.yaml", "service": "b"}}
	}
	if mainExtends == 2 {
		svcs["own2"] = map[string]any{"extends": map[string]any{"file": "./lib/base.yaml", "service": "b"}}
	}
	main["services"] = svcs
	m, err := tcLoad(nil, nil, main)
	vrtObserve("err", err != nil)
	vrtAssert("loads", err == nil)
	if err != nil {
		vrtObserve("msg", err.Error())
		return
	}
	check := func(name string) {
		s := tcSvc(m, name)
		vrtAssert("present#"+name, s != nil)
		if s == nil {
			return
		}
		b, _ := s["build"].(map[string]any)
		ac, _ := b["additional_contexts"].(map[string]any)
		vols, _ := s["volumes"].([]any)
		vrtObserve(name, b["context"])
		vrtAssert("inherited-paths-anchored-at-the-extended-file#"+name, b["context"] == any(w+"/lib/ctx"+v) && ac["k"] == any(w+"/shared") &&
			len(vols) == 1 && vols[0].(map[string]any)["source"] == any(w+"/lib/data"))
	}
	check("incsvc")
	if mainExtends >= 1 {
		check("own")
	}
	if mainExtends == 2 {
		check("own2")
	}
}
