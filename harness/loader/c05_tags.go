package loader

import "gopkg.in/yaml.v3"

// C05 x C04: the extending service's own attributes are applied on top of the resolved base "by the
// override rules" - these include `!reset` (drop what is inherited) and `!override` (replace instead
// of merging). The base lives in the same file or in another file, directly or at the end of a chain;
// where it lives must not matter.
func nFrom(x any) *yaml.Node {
	switch v := x.(type) {
	case map[string]any:
		var kv []*yaml.Node
		for k, e := range v {
			kv = append(kv, nStr(k), nFrom(e))
		}
		return nMap(kv...)
	case []any:
		var items []*yaml.Node
		for _, e := range v {
			items = append(items, nFrom(e))
		}
		return nSeq(items...)
	case string:
		return nStr(v)
	}
	return &yaml.Node{Kind: yaml.ScalarNode, Tag: "!!null", Value: "null"}
}

func VerifC05Tags() {
	w := vrtRoot() + "/w"
	v := "x" + vrtString("v", vrtParam("VL", 1), "ab")
	where := vrtChoice("base", 4) // 0 same file, 1 other file, 2 other file + chain there, 3 same file -> other file
	if vrtChoice("nullBase", 2) == 1 {
		// the base is declared with nothing in it (`b:`): nothing is inherited, and no `extends` is left either
		c05NullBase(where == 1 || where == 2)
		return
	}
	tag := []string{"!reset", "!override"}[vrtChoice("tag", 2)]
	attr := []string{"command", "ports", "environment", "labels"}[vrtChoice("attr", 4)]
	root := map[string]any{"image": "base", "command": []any{"sleep", v}, "ports": []any{"8080:80"},
		"environment": map[string]any{"FOO": "1", "K": v}, "labels": map[string]any{"l": v}, "user": "keep",
		// a literal dollar sign (written `$$`) and a variable: each is interpolated once, wherever the base lives
		"domainname": "d$$HOME-$${X}", "stop_signal": "SIG${SIGNAME:-TERM}"}
	var val *yaml.Node
	switch attr {
	case "command":
		val = nSeq(nStr("own"))
	case "ports":
		val = nSeq(nStr("9090:90"))
	case "environment":
		val = nMap(nStr("N"), nStr("2"))
	case "labels":
		val = nMap(nStr("n"), nStr(v))
	}
	if tag == "!reset" && vrtChoice("resetNull", 2) == 1 {
		val = &yaml.Node{Kind: yaml.ScalarNode, Value: "null"}
	}
	val.Tag = tag
	var ext *yaml.Node
	services := []*yaml.Node{}
	switch where {
	case 0:
		ext = nMap(nStr("service"), nStr("b"))
		services = append(services, nStr("b"), nFrom(root))
	case 1:
		ext = nMap(nStr("file"), nStr("common/base.yaml"), nStr("service"), nStr("b"))
		vrtYamlFile(w+"/common/base.yaml", map[string]any{"services": map[string]any{"b": root}})
	case 2:
		ext = nMap(nStr("file"), nStr("common/base.yaml"), nStr("service"), nStr("b"))
		vrtYamlFile(w+"/common/base.yaml", map[string]any{"services": map[string]any{"b": map[string]any{"extends": map[string]any{"service": "r"}, "hostname": "h"}, "r": root}})
	case 3:
		ext = nMap(nStr("service"), nStr("mid"))
		services = append(services, nStr("mid"), nMap(nStr("extends"), nMap(nStr("file"), nStr("common/base.yaml"), nStr("service"), nStr("b")), nStr("hostname"), nStr("h")))
		vrtYamlFile(w+"/common/base.yaml", map[string]any{"services": map[string]any{"b": root}})
	}
	services = append(services, nStr("s"), nMap(nStr("extends"), ext, nStr(attr), val, nStr("working_dir"), nStr("/w"+v)))
	vrtYamlNodeFile(w+"/compose.yaml", nMap(nStr("services"), nMap(services...)))
	m, err := tcLoadFiles(nil, w+"/compose.yaml")
	vrtObserve("err", err != nil)
	vrtAssert("loads", err == nil)
	if err != nil {
		vrtObserve("msg", err.Error())
		return
	}
	s := tcSvc(m, "s")
	vrtObserve("attr", s[attr])
	_, hasExt := s["extends"]
	vrtAssert("no-extends-left", !hasExt)
	vrtAssert("inherited-kept", s["user"] == any("keep") && s["image"] == any("base"))
	vrtAssert("inherited-value-interpolated-once", s["domainname"] == any("d$HOME-${X}") && s["stop_signal"] == any("SIGTERM"))
	vrtAssert("own-applied", s["working_dir"] == any("/w"+v))
	if tag == "!reset" {
		_, has := s[attr]
		vrtAssert("reset-drops-inherited", !has)
		return
	}
	switch attr {
	case "command":
		l, _ := c04Strs(s["command"])
		vrtAssert("override-replaces-inherited", len(l) == 1 && l[0] == "own")
	case "ports":
		l, _ := s["ports"].([]any)
		vrtAssert("override-replaces-inherited", len(l) == 1 && c04Int(l[0].(map[string]any)["target"]) == 90)
	case "environment":
		kv, _ := c04KV(s["environment"])
		vrtAssert("override-replaces-inherited", len(kv) == 1 && kv["N"] == "2")
	case "labels":
		kv, _ := c04KV(s["labels"])
		vrtAssert("override-replaces-inherited", len(kv) == 1 && kv["n"] == v)
	}
}

func c05NullBase(otherFile bool) {
	w := vrtRoot() + "/w"
	own := map[string]any{"image": "own", "hostname": "h"}
	var main map[string]any
	if otherFile {
		vrtYamlFile(w+"/common/base.yaml", map[string]any{"services": map[string]any{"b": nil, "ok": map[string]any{"image": "i"}}})
		own["extends"] = map[string]any{"file": "common/base.yaml", "service": "b"}
		main = map[string]any{"services": map[string]any{"s": own}}
	} else {
		own["extends"] = map[string]any{"service": "b"}
		main = map[string]any{"services": map[string]any{"s": own, "b": nil, "t": map[string]any{"image": "i", "extends": "s"}}}
	}
	m, err := tcLoad(nil, func(o *Options) { o.SkipValidation = true }, main)
	vrtObserve("err", err != nil)
	if err != nil {
		// a service without content may also be refused: an error is an acceptable outcome
		return
	}
	s := tcSvc(m, "s")
	_, has := s["extends"]
	vrtAssert("no-extends-left-with-a-null-base", !has)
	vrtAssert("own-attributes-kept-with-a-null-base", s["image"] == any("own") && s["hostname"] == any("h"))
	if !otherFile {
		t := tcSvc(m, "t")
		_, has := t["extends"]
		vrtAssert("no-extends-left-with-a-null-base", !has)
	}
}
