package loader

import "strconv"

// C10: referential consistency. A valid base model (services a, b, c and a profile-disabled d;
// one network, volume, secret, config) is edited by one scenario with symbolic
// parameters; an independent oracle written from the property statement says whether the
// edit breaks a rule. Both directions are asserted: consistent => loads, broken => error.

func c10Base() map[string]any {
	return map[string]any{
		"services": map[string]any{
			"a": map[string]any{"image": "i"},
			"b": map[string]any{"image": "i"},
			"c": map[string]any{"image": "i"},
			"d": map[string]any{"image": "i", "profiles": []any{"off"}},
		},
		"networks": map[string]any{"net": nil},
		"volumes":  map[string]any{"vol": nil},
		"secrets":  map[string]any{"sec": map[string]any{"file": "/f"}},
		"configs":  map[string]any{"cfg": map[string]any{"file": "/f"}},
	}
}

func c10HasCycle(edge [3][3]bool) bool {
	// reachability closure on 3 nodes
	r := edge
	for k := 0; k < 3; k++ {
		for i := 0; i < 3; i++ {
			for j := 0; j < 3; j++ {
				if r[i][k] && r[k][j] {
					r[i][j] = true
				}
			}
		}
	}
	return r[0][0] || r[1][1] || r[2][2]
}

// a second file some scenarios add
var c10Later map[string]any

func VerifC10Consistency() {
	c10Later = nil
	doc := c10Base()
	svcs := doc["services"].(map[string]any)
	a := svcs["a"].(map[string]any)
	bad := false
	scen := vrtChoice("scenario", 17)
	switch scen {
	case 0: // untouched
	case 1: // image or build
		hasImage := vrtChoice("image", 2) == 1
		hasBuild := vrtChoice("build", 2) == 1
		delete(a, "image")
		if hasImage {
			a["image"] = "i"
		}
		if hasBuild {
			a["build"] = map[string]any{"context": "."}
		}
		bad = !hasImage && !hasBuild
	case 2: // network reference
		k := vrtChoice("net", 2)
		a["networks"] = []any{[]string{"net", "zz"}[k]}
		bad = k == 1
	case 3: // named volume reference
		k := vrtChoice("vol", 3)
		// the options of a short-syntax mount do not change what its source refers to
		opt := []string{"", ":ro", ":z", ":rshared", ":nocopy"}[vrtChoice("volOption", 5)]
		a["volumes"] = []any{[]string{"vol:/t", "zzz:/t", "/abs:/t"}[k] + opt}
		bad = k == 1
	case 4: // secret / config / build secret reference
		kind := vrtChoice("kind", 3)
		k := vrtChoice("ref", 2)
		switch kind {
		case 0:
			a["secrets"] = []any{[]string{"sec", "zz"}[k]}
		case 1:
			a["configs"] = []any{[]string{"cfg", "zz"}[k]}
		case 2:
			a["build"] = map[string]any{"context": ".", "secrets": []any{[]string{"sec", "zz"}[k]}}
		}
		bad = k == 1
	case 5: // depends_on target: enabled / disabled by profile / undefined, required or not
		k := vrtChoice("target", 3)
		req := vrtChoice("required", 2) == 1
		target := []string{"b", "d", "zz"}[k]
		a["depends_on"] = map[string]any{target: map[string]any{"condition": "service_started", "required": req}}
		// a later file may declare the dependency again, in short form (which means required) or with the other flag
		switch vrtChoice("redeclaredLater", 3) {
		case 1:
			c10Later = map[string]any{"services": map[string]any{"a": map[string]any{"depends_on": []any{target}}}}
			req = true
		case 2:
			req = !req
			c10Later = map[string]any{"services": map[string]any{"a": map[string]any{"depends_on": map[string]any{target: map[string]any{"condition": "service_started", "required": req}}}}}
		}
		bad = k == 2 || (k == 1 && req)
	case 6: // network_mode service:X, and network_mode together with networks
		k := vrtChoice("target", 3)
		switch k {
		case 0:
			a["network_mode"] = "service:b"
		case 1:
			a["network_mode"] = "service:zz"
			bad = true
		case 2:
			a["network_mode"] = "host"
			a["networks"] = []any{"net"}
			bad = true
		}
	case 7: // dockerfile and dockerfile_inline
		df := vrtChoice("dockerfile", 2) == 1
		dfi := vrtChoice("inline", 2) == 1
		b := map[string]any{"context": "."}
		if df {
			b["dockerfile"] = "D"
		}
		if dfi {
			b["dockerfile_inline"] = "FROM x"
		}
		a["build"] = b
		bad = df && dfi
	case 8: // scale and deploy.replicas
		s := vrtInt("scale", 0, 3)
		r := vrtInt("replicas", 0, 3)
		hasS := vrtChoice("hasScale", 2) == 1
		hasR := vrtChoice("hasReplicas", 2) == 1
		if hasS {
			a["scale"] = s
		}
		if hasR {
			a["deploy"] = map[string]any{"replicas": r}
		}
		bad = hasS && hasR && s != r
	case 9, 10: // paired settings: pids_limit, mem_limit, mem_reservation, cpus and their deploy.resources counterparts
		// -1 is the legacy spelling of "unlimited" (0, "not set", compares with nothing and is left out)
		m := vrtInt("own", -1, 2)
		q := vrtInt("deploy", -1, 2)
		vrtAssume(m != 0 && q != 0)
		pair := vrtChoice("pair", 4)
		attr := []string{"pids_limit", "mem_limit", "mem_reservation", "cpus"}[pair]
		box := []string{"limits", "limits", "reservations", "limits"}[pair]
		other := []string{"reservations", "reservations", "limits", "reservations"}[pair]
		key := []string{"pids", "memory", "memory", "cpus"}[pair]
		var val any = q
		if key != "pids" {
			val = strconv.Itoa(q)
		}
		a[attr] = m
		// where the counterpart lives, and what else of deploy exists around it
		shape := vrtChoice("deployShape", 6)
		switch shape {
		case 0: // the counterpart alone
			a["deploy"] = map[string]any{"resources": map[string]any{box: map[string]any{key: val}}}
		case 1: // the counterpart next to the other box
			a["deploy"] = map[string]any{"resources": map[string]any{box: map[string]any{key: val}, other: map[string]any{"cpus": "1"}}}
		case 2: // only the other box: nothing to compare with
			a["deploy"] = map[string]any{"resources": map[string]any{other: map[string]any{"cpus": "1"}}}
		case 3: // the right box without the counterpart
			a["deploy"] = map[string]any{"resources": map[string]any{box: map[string]any{"cpus": "1"}}}
			if key == "cpus" {
				a["deploy"] = map[string]any{"resources": map[string]any{box: map[string]any{"pids": 1}}}
			}
		case 4: // empty resources
			a["deploy"] = map[string]any{"resources": map[string]any{}}
		case 5: // deploy without resources
			a["deploy"] = map[string]any{"replicas": 1}
		}
		bad = shape <= 1 && m != q && m != 0 && q != 0
		// a second pair on the same service, itself agreeing or not: every pair is compared, whatever the others say
		if second := vrtChoice("secondPair", 5); second > 0 {
			sp := second - 1
			if sp != pair {
				attr2 := []string{"pids_limit", "mem_limit", "mem_reservation", "cpus"}[sp]
				box2 := []string{"limits", "limits", "reservations", "limits"}[sp]
				key2 := []string{"pids", "memory", "memory", "cpus"}[sp]
				agree := vrtChoice("secondAgrees", 2) == 1
				a[attr2] = 2
				v2 := 2
				if !agree {
					v2 = 3
				}
				dep, _ := a["deploy"].(map[string]any)
				if dep == nil {
					dep = map[string]any{}
					a["deploy"] = dep
				}
				res, _ := dep["resources"].(map[string]any)
				if res == nil {
					res = map[string]any{}
					dep["resources"] = res
				}
				bx, _ := res[box2].(map[string]any)
				if bx == nil {
					bx = map[string]any{}
					res[box2] = bx
				}
				if key2 == "pids" {
					bx[key2] = v2
				} else {
					bx[key2] = strconv.Itoa(v2)
				}
				if !agree {
					bad = true
				}
			}
		}
	case 11: // container_name with several replicas
		s := vrtInt("scale", 0, 3)
		a["container_name"] = "cn"
		if vrtChoice("via", 2) == 0 {
			a["scale"] = s
		} else {
			a["deploy"] = map[string]any{"replicas": s}
		}
		bad = s > 1
	case 12: // secret / config sources
		isCfg := vrtChoice("config", 2) == 1
		file := vrtChoice("file", 2) == 1
		env := vrtChoice("environment", 2) == 1
		ext := vrtChoice("external", 2) == 1
		o := map[string]any{}
		n := 0
		if file {
			o["file"] = "/f"
			n++
		}
		if env {
			o["environment"] = "E"
			n++
		}
		if isCfg && vrtChoice("content", 2) == 1 {
			o["content"] = "x"
			n++
		}
		if ext {
			o["external"] = true
		}
		// a custom driver changes nothing: none (checkConsistency) or several sources (validation) are rejected
		drv := !isCfg && vrtChoice("driver", 2) == 1
		if drv {
			o["driver"] = "d"
		}
		if isCfg {
			doc["configs"].(map[string]any)["cfg"] = o
		} else {
			doc["secrets"].(map[string]any)["sec"] = o
		}
		// none without external, or several sources, is an error; external together with a source is
		// not covered by the statement (schema decides): skip that combination
		if ext && n > 0 {
			return
		}
		bad = (!ext && n == 0) || n > 1
	case 16: // a plain namespace value next to a `service:` reference in another namespace attribute
		first := []string{"", "network_mode", "ipc", "pid"}[vrtChoice("plainNamespace", 4)]
		second := []string{"ipc", "pid", "uts"}[vrtChoice("serviceNamespace", 3)]
		if first == second {
			return
		}
		if first != "" {
			a[first] = "host"
		}
		k := vrtChoice("target", 2)
		a[second] = "service:" + []string{"b", "zz"}[k]
		bad = k == 1
	case 13: // external volume with creation parameters
		ext := vrtChoice("external", 2) == 1
		drv := vrtChoice("driver", 2) == 1
		o := map[string]any{}
		if vrtChoice("extension", 2) == 1 {
			o["x-note"] = "n"
			o["a-label-like-key"] = nil
			delete(o, "a-label-like-key")
		}
		if ext {
			o["external"] = true
		}
		if drv {
			o["driver"] = "local"
		}
		doc["volumes"].(map[string]any)["vol"] = o
		bad = ext && drv
	case 14, 15: // dependency digraph over a, b, c
		names := []string{"a", "b", "c"}
		var edge [3][3]bool
		for i := 0; i < 3; i++ {
			deps := map[string]any{}
			for j := 0; j < 3; j++ {
				if scen == 14 && i == j {
					continue // scenario 14: no self loops; 15 allows them
				}
				if vrtChoice("edge", 2) == 1 {
					edge[i][j] = true
					deps[names[j]] = map[string]any{"condition": "service_started"}
				}
			}
			if len(deps) > 0 {
				svcs[names[i]].(map[string]any)["depends_on"] = deps
			}
		}
		bad = c10HasCycle(edge)
	}
	// valid context that must not change any verdict: an optional dependency on the profile-disabled service
	if vrtChoice("context", 2) == 1 {
		deps, _ := a["depends_on"].(map[string]any)
		if deps == nil {
			deps = map[string]any{}
		}
		if _, ok := deps["d"]; !ok {
			deps["d"] = map[string]any{"condition": "service_started", "required": false}
		}
		a["depends_on"] = deps
	}
	// the verdict must not depend on map iteration order inside the library: explore it sorted ascending and descending too
	// (observations are not recorded under a perturbed order: natively the order is random)
	order := []int{0, 3, 4}[vrtChoice("maporder", 3)]
	vrtMapOrder(order)
	docs := []map[string]any{doc}
	if c10Later != nil {
		docs = append(docs, c10Later)
		c10Later = nil
	}
	p, err := tcLoadProject(nil, nil, docs...)
	vrtMapOrder(0)
	if order == 0 {
		vrtObserve("err", err != nil)
	}
	if bad {
		vrtCover("violating")
		vrtAssert("inconsistent-model-rejected", err != nil)
		vrtAssert("no-project-with-error", err == nil || p == nil)
		return
	}
	vrtCover("consistent")
	if err != nil {
		vrtObserve("msg", err.Error())
	}
	vrtAssert("consistent-model-loads", err == nil)
	if err != nil {
		return
	}
	// accepted => invariant (independent re-check on the typed project)
	for _, s := range p.Services {
		vrtAssert("inv-image-or-build", s.Image != "" || s.Build != nil)
		for n := range s.Networks {
			_, ok := p.Networks[n]
			vrtAssert("inv-network-declared", ok)
		}
		for d, c := range s.DependsOn {
			_, en := p.Services[d]
			_, dis := p.DisabledServices[d]
			vrtAssert("inv-dependency-exists", en || (dis && !c.Required))
		}
		for _, v := range s.Volumes {
			if v.Type == "volume" && v.Source != "" {
				_, ok := p.Volumes[v.Source]
				vrtAssert("inv-volume-declared", ok)
			}
		}
		for _, x := range s.Secrets {
			_, ok := p.Secrets[x.Source]
			vrtAssert("inv-secret-declared", ok)
		}
		for _, x := range s.Configs {
			_, ok := p.Configs[x.Source]
			vrtAssert("inv-config-declared", ok)
		}
		vrtAssert("inv-netmode-xor-networks", s.NetworkMode == "" || len(s.Networks) == 0)
	}
}
