package loader

// C04: multi-file merge follows the Compose override rules (DESIGN appendix A.2). The
// rules table below is written from the specification's merge chapter, not from the
// implementation's mergeSpecials/unique tables. Everything goes through the real
// dict-level pipeline (tcLoad).

func c04KV(x any) (map[string]string, bool) {
	out := map[string]string{}
	switch v := x.(type) {
	case nil:
		return out, true
	case map[string]any:
		for k, e := range v {
			switch s := e.(type) {
			case nil:
				out[k] = ""
			case string:
				out[k] = s
			default:
				return nil, false
			}
		}
		return out, true
	case []any:
		for _, e := range v {
			s, ok := e.(string)
			if !ok {
				return nil, false
			}
			k, val := s, ""
			for i := 0; i < len(s); i++ {
				if s[i] == '=' {
					k, val = s[:i], s[i+1:]
					break
				}
			}
			out[k] = val
		}
		return out, true
	}
	return nil, false
}

func c04Strs(x any) ([]string, bool) {
	l, ok := x.([]any)
	if !ok {
		return nil, x == nil
	}
	var out []string
	for _, e := range l {
		s, ok := e.(string)
		if !ok {
			return nil, false
		}
		out = append(out, s)
	}
	return out, true
}

func c04Doc(attr string, v any) map[string]any {
	return map[string]any{"services": map[string]any{"s": map[string]any{"image": "i", attr: v}}}
}
func c04Over(attr string, v any) map[string]any {
	return map[string]any{"services": map[string]any{"s": map[string]any{attr: v}}}
}

func c04Val(tag string) string { return vrtString(tag, vrtParam("VL", 2), "ab") }

// spell renders a key/value set as list or mapping
func c04Spell(asList bool, kv [][2]string) any {
	if asList {
		var l []any
		for _, p := range kv {
			l = append(l, p[0]+"="+p[1])
		}
		return l
	}
	m := map[string]any{}
	for _, p := range kv {
		m[p[0]] = p[1]
	}
	return m
}

// VerifC04KeyValue: KEY=VALUE attributes merge by key whichever spelling either side uses - every attribute the
// schema declares as list-or-mapping of key/value pairs, on services (also below build and deploy) and on networks,
// volumes, secrets and configs.
func VerifC04KeyValue() {
	sites := [][]string{{"services", "environment"}, {"services", "labels"}, {"services", "annotations"}, {"services", "sysctls"},
		{"services", "build", "args"}, {"services", "build", "labels"}, {"services", "deploy", "labels"}, {"services", "build", "ssh"},
		{"networks", "labels"}, {"volumes", "labels"}, {"secrets", "labels"}, {"configs", "labels"}}
	site := sites[vrtChoice("attr", len(sites))]
	v1, v2, v3 := c04Val("v1"), c04Val("v2"), c04Val("v3")
	baseList := vrtChoice("baseList", 2) == 1
	overList := vrtChoice("overList", 2) == 1
	mk := func(first bool, val any) map[string]any {
		// the attribute at its place below the section's entry `s`; the first file also carries what the entry needs
		var inner any = val
		for i := len(site) - 1; i >= 1; i-- {
			inner = map[string]any{site[i]: inner}
		}
		entry := inner.(map[string]any)
		doc := map[string]any{"services": map[string]any{"s": map[string]any{}}}
		if first {
			doc["services"].(map[string]any)["s"].(map[string]any)["image"] = "i"
		}
		switch site[0] {
		case "services":
			for k, e := range entry {
				doc["services"].(map[string]any)["s"].(map[string]any)[k] = e
			}
			if first && site[1] == "build" {
				entry["build"].(map[string]any)["context"] = "/ctx"
			}
		default:
			if first && (site[0] == "secrets" || site[0] == "configs") {
				entry["file"] = "/f"
			}
			doc[site[0]] = map[string]any{"s": entry}
		}
		return doc
	}
	fetch := func(m map[string]any) any {
		var cur any = m[site[0]].(map[string]any)["s"]
		for _, k := range site[1:] {
			mm, _ := cur.(map[string]any)
			cur = mm[k]
		}
		return cur
	}
	base := mk(true, c04Spell(baseList, [][2]string{{"K", v1}, {"B", v3}}))
	over := mk(false, c04Spell(overList, [][2]string{{"K", v2}, {"N", v1}}))
	m, err := tcLoad(nil, nil, base, over)
	vrtObserve("err", err != nil)
	cls := site[0]
	for _, k := range site[1:] {
		cls += "." + k
	}
	vrtAssert("loads#"+cls, err == nil)
	if err != nil {
		return
	}
	got, ok := c04KV(fetch(m))
	vrtAssert("kv-shape#"+cls, ok)
	vrtObserve("got", got)
	vrtAssert("later-wins#"+cls, got["K"] == v2)
	vrtAssert("base-kept#"+cls, got["B"] == v3)
	vrtAssert("new-added#"+cls, got["N"] == v1)
	vrtAssert("no-extra#"+cls, len(got) == 3)
}

// VerifC04Scalar: scalars are replaced; what the override does not mention is preserved.
func VerifC04Scalar() {
	attrs := []string{"container_name", "hostname", "user", "working_dir", "domainname", "image", "runtime", "stop_signal"}
	attr := attrs[vrtChoice("attr", len(attrs))]
	v1, v2 := "x"+c04Val("v1"), "y"+c04Val("v2")
	base := c04Doc(attr, v1)
	base["services"].(map[string]any)["s"].(map[string]any)["mac_address"] = "keep"
	var over map[string]any
	mention := vrtChoice("mention", 2) == 1
	if mention {
		over = c04Over(attr, v2)
	} else {
		over = c04Over("cpu_shares", 2)
	}
	m, err := tcLoad(nil, nil, base, over)
	vrtAssert("loads", err == nil)
	if err != nil {
		return
	}
	s := tcSvc(m, "s")
	vrtObserve("got", s[attr])
	if mention {
		vrtAssert("replaced", s[attr] == any(v2))
	} else {
		vrtAssert("preserved", s[attr] == any(v1))
	}
	vrtAssert("unmentioned-kept", s["mac_address"] == any("keep"))
}

// VerifC04Sequence: sequences append; unique-valued lists keep one entry per value; command-like
// attributes are replaced wholesale.
func VerifC04Sequence() {
	v1, v2 := "x"+c04Val("v1"), "x"+c04Val("v2")
	kind := vrtChoice("class", 3)
	switch kind {
	case 0: // plain append
		attrs := []string{"security_opt", "group_add", "external_links", "device_cgroup_rules"}
		attr := attrs[vrtChoice("attr", len(attrs))]
		// the schema demands unique items for these lists and the statement does not say what a value
		// repeated across files means for a plainly appended sequence: keep the values distinct
		vrtAssume(v1 != v2)
		m, err := tcLoad(nil, nil, c04Doc(attr, []any{v1, "k"}), c04Over(attr, []any{v2}))
		vrtAssert("loads", err == nil)
		if err != nil {
			return
		}
		got, ok := c04Strs(tcSvc(m, "s")[attr])
		vrtObserve("got", got)
		vrtAssert("append-shape", ok && len(got) >= 2)
		if ok && len(got) >= 2 {
			vrtAssert("append-order", got[0] == v1 && got[1] == "k" && got[len(got)-1] == v2)
		}
	case 1: // one entry per value
		attrs := []string{"cap_add", "cap_drop", "dns", "dns_opt", "dns_search", "profiles", "tmpfs"}
		attr := attrs[vrtChoice("attr", len(attrs))]
		m, err := tcLoad(nil, nil, c04Doc(attr, []any{v1, "k"}), c04Over(attr, []any{v2, "k"}))
		vrtAssert("loads", err == nil)
		if err != nil {
			return
		}
		got, ok := c04Strs(tcSvc(m, "s")[attr])
		vrtObserve("got", got)
		vrtAssert("unique-shape", ok)
		n1, n2, nk := 0, 0, 0
		for _, g := range got {
			if g == v1 {
				n1++
			}
			if g == v2 {
				n2++
			}
			if g == "k" {
				nk++
			}
		}
		vrtAssert("unique-k-once", nk == 1)
		vrtAssert("unique-v1-once", n1 == 1)
		vrtAssert("unique-v2-once", n2 == 1)
		if v1 == v2 {
			vrtAssert("unique-total", len(got) == 2)
		} else {
			vrtAssert("unique-total", len(got) == 3)
		}
	case 2: // replaced wholesale, whatever the later value is: a list, a string, an empty list or an explicit null
		attrs := []string{"command", "entrypoint", "healthcheck.test"}
		attr := attrs[vrtChoice("attr", len(attrs))]
		spell := vrtChoice("laterValue", 4)
		var later any
		switch spell {
		case 0:
			later = []any{v2}
		case 1:
			later = v2
		case 2:
			later = []any{}
		case 3:
			later = nil
		}
		var base, over map[string]any
		if attr == "healthcheck.test" {
			base = c04Doc("healthcheck", map[string]any{"test": []any{"CMD", v1, "k"}, "interval": "5s"})
			if spell == 1 {
				later = "true " + v2
			}
			if spell == 0 {
				later = []any{"CMD", v2}
			}
			over = c04Over("healthcheck", map[string]any{"test": later})
		} else {
			base = c04Doc(attr, []any{v1, "k"})
			over = c04Over(attr, later)
		}
		m, err := tcLoad(nil, nil, base, over)
		vrtObserve("err", err != nil)
		if spell >= 2 && attr == "healthcheck.test" {
			// an empty or null test is not a valid healthcheck: nothing to compare
			return
		}
		vrtAssert("loads", err == nil)
		if err != nil {
			return
		}
		var gotAny any
		if attr == "healthcheck.test" {
			hc, _ := tcSvc(m, "s")["healthcheck"].(map[string]any)
			vrtAssert("unmentioned-healthcheck-setting-kept", hc["interval"] == any("5s"))
			gotAny = hc["test"]
		} else {
			gotAny = tcSvc(m, "s")[attr]
		}
		vrtObserve("got", gotAny)
		got, ok := c04Strs(gotAny)
		for _, g := range got {
			vrtAssert("nothing-of-the-earlier-value-left", g != "k")
		}
		switch spell {
		case 0:
			vrtAssert("override-wholesale", ok && len(got) >= 1 && got[len(got)-1] == v2)
		case 1:
			s, isStr := gotAny.(string)
			vrtAssert("override-wholesale-string", (isStr && (s == v2 || s == "true "+v2)) || (ok && len(got) >= 1))
		case 2, 3:
			vrtAssert("override-wholesale-empty", gotAny == nil || (ok && len(got) == 0))
		}
	}
}

// VerifC04Mapping: mappings merge key by key, recursively.
func VerifC04Mapping() {
	v1, v2, v3 := c04Val("v1"), c04Val("v2"), c04Val("v3")
	which := vrtChoice("attr", 3)
	var base, over map[string]any
	switch which {
	case 0:
		base = c04Doc("build", map[string]any{"context": "c", "dockerfile": "D" + v1, "target": "t" + v3})
		over = c04Over("build", map[string]any{"dockerfile": "E" + v2, "network": "n"})
	case 1:
		base = c04Doc("healthcheck", map[string]any{"interval": "1s", "retries": 2, "start_period": "3s"})
		over = c04Over("healthcheck", map[string]any{"retries": 5, "timeout": "9s"})
	case 2:
		// options merge when both sides name the same driver or one of them names none
		bl := map[string]any{"options": map[string]any{"a": v1, "b": v3}}
		ol := map[string]any{"options": map[string]any{"a": v2, "c": "z"}}
		switch vrtChoice("drivers", 3) {
		case 0:
			bl["driver"], ol["driver"] = "d", "d"
		case 1:
			ol["driver"] = "d" // base names none
		case 2:
			bl["driver"] = "d" // override names none
		}
		base = c04Doc("logging", bl)
		over = c04Over("logging", ol)
	}
	m, err := tcLoad(nil, nil, base, over)
	vrtAssert("loads", err == nil)
	if err != nil {
		return
	}
	s := tcSvc(m, "s")
	switch which {
	case 0:
		b, _ := s["build"].(map[string]any)
		vrtObserve("build", b)
		vrtAssert("map-later-wins", b["dockerfile"] == any("E"+v2))
		vrtAssert("map-base-kept", b["target"] == any("t"+v3))
		vrtAssert("map-new-added", b["network"] == any("n"))
	case 1:
		h, _ := s["healthcheck"].(map[string]any)
		vrtObserve("hc", h)
		vrtAssert("map-later-wins", h["retries"] == any(5))
		vrtAssert("map-base-kept", h["interval"] == any("1s") && h["start_period"] == any("3s"))
		vrtAssert("map-new-added", h["timeout"] == any("9s"))
	case 2:
		l, _ := s["logging"].(map[string]any)
		o, _ := l["options"].(map[string]any)
		vrtObserve("opts", o)
		vrtAssert("map-later-wins", o["a"] == any(v2))
		vrtAssert("map-base-kept", o["b"] == any(v3))
		vrtAssert("map-new-added", o["c"] == any("z"))
	}
}

// VerifC04Keyed: keyed lists keep one entry per key with the later file winning.
func VerifC04Keyed() {
	t1 := "/t" + c04Val("t1")
	t2 := "/t" + c04Val("t2")
	which := vrtChoice("attr", 4)
	var base, over map[string]any
	switch which {
	case 0: // volumes by target, short syntax on both sides
		base = c04Doc("volumes", []any{"va:" + t1, "vk:/keep"})
		over = c04Over("volumes", []any{"vb:" + t2})
		for _, d := range []map[string]any{base, over} {
			d["volumes"] = map[string]any{"va": nil, "vb": nil, "vk": nil}
		}
	case 1: // devices by target; three-segment short syntax
		base = c04Doc("devices", []any{"/dev/a:" + t1 + ":rw", "/dev/k:/keep:rw"})
		over = c04Over("devices", []any{"/dev/b:" + t2 + ":rw"})
	case 2: // secrets by target (long syntax)
		base = c04Doc("secrets", []any{map[string]any{"source": "sa", "target": t1}, map[string]any{"source": "sk", "target": "/keep"}})
		over = c04Over("secrets", []any{map[string]any{"source": "sb", "target": t2}})
		for _, d := range []map[string]any{base, over} {
			d["secrets"] = map[string]any{"sa": map[string]any{"file": "f"}, "sb": map[string]any{"file": "f"}, "sk": map[string]any{"file": "f"}}
		}
	case 3: // env_file by path
		base = c04Doc("env_file", []any{"e" + t1, "keep.env"})
		over = c04Over("env_file", []any{map[string]any{"path": "e" + t2, "required": false}})
	}
	m, err := tcLoad(nil, nil, base, over)
	vrtObserve("err", err != nil)
	vrtAssert("loads", err == nil)
	if err != nil {
		return
	}
	names := []string{"volumes", "devices", "secrets", "env_file"}
	l, _ := tcSvc(m, "s")[names[which]].([]any)
	vrtObserve("list", l)
	keyOf := func(e any) string {
		mm, _ := e.(map[string]any)
		if which == 3 {
			p, _ := mm["path"].(string)
			return p
		}
		t, _ := mm["target"].(string)
		return t
	}
	srcOf := func(e any) string {
		mm, _ := e.(map[string]any)
		s, _ := mm["source"].(string)
		return s
	}
	wantKeep := "/keep"
	k1, k2 := t1, t2
	if which == 3 {
		wantKeep = vrtRoot() + "/w/keep.env"
		k1, k2 = vrtRoot()+"/w/e"+t1, vrtRoot()+"/w/e"+t2
	}
	n1, n2, nk := 0, 0, 0
	for _, e := range l {
		k := keyOf(e)
		if k == k1 {
			n1++
		}
		if k == k2 {
			n2++
			if which != 3 && t1 == t2 {
				// same key in base and override: the later file wins
				src := srcOf(e)
				vrtAssert("keyed-later-wins", src == "vb" || src == "/dev/b" || src == "sb")
			}
		}
		if k == wantKeep {
			nk++
		}
	}
	vrtAssert("keyed-keep-once", nk == 1)
	if t1 == t2 {
		vrtAssert("keyed-one-per-key", n1 == 1 && len(l) == 2)
	} else {
		vrtAssert("keyed-both", n1 == 1 && n2 == 1 && len(l) == 3)
	}
}

func get2(d map[string]any, n, f string) any {
	mm, _ := d[n].(map[string]any)
	return mm[f]
}

// VerifC04DependsOn: depends_on merges key by key in either spelling; three files.
func VerifC04DependsOn() {
	baseList := vrtChoice("baseList", 2) == 1
	midList := vrtChoice("midList", 2) == 1
	dep := func(list bool, names ...string) any {
		if list {
			var l []any
			for _, n := range names {
				l = append(l, n)
			}
			return l
		}
		m := map[string]any{}
		for _, n := range names {
			m[n] = map[string]any{"condition": "service_started"}
		}
		return m
	}
	mk := func(doc map[string]any) map[string]any {
		sv := doc["services"].(map[string]any)
		for _, n := range []string{"a", "b", "c", "d"} {
			sv[n] = map[string]any{"image": "i"}
		}
		return doc
	}
	cond := "service_healthy"
	if vrtChoice("cond", 2) == 1 {
		cond = "service_completed_successfully"
	}
	base := mk(c04Doc("depends_on", dep(baseList, "a", "d")))
	mid := c04Over("depends_on", dep(midList, "b", "c"))
	// the last file refines two entries with different values; one of them becomes optional
	condD := "service_healthy"
	if cond == condD {
		condD = "service_completed_successfully"
	}
	last := c04Over("depends_on", map[string]any{"c": map[string]any{"condition": cond, "restart": true, "required": false}, "d": map[string]any{"condition": condD}})
	m, err := tcLoad(nil, nil, base, mid, last)
	vrtAssert("loads", err == nil)
	if err != nil {
		return
	}
	d, _ := tcSvc(m, "s")["depends_on"].(map[string]any)
	vrtObserve("deps", d)
	vrtAssert("deps-all-kept", len(d) == 4)
	vrtAssert("deps-refined-base", get2(d, "d", "condition") == any(condD))
	get := func(n, f string) any {
		mm, _ := d[n].(map[string]any)
		return mm[f]
	}
	vrtAssert("deps-refined", get("c", "condition") == any(cond) && get("c", "restart") == any(true))
	vrtAssert("deps-sibling-untouched", get("b", "condition") == any("service_started") && get("b", "restart") == nil)
	vrtAssert("deps-base-untouched", get("a", "condition") == any("service_started") && get("a", "restart") == nil)
	vrtAssert("deps-required-default", get("a", "required") == any(true) && get("b", "required") == any(true) && get("d", "required") == any(true))
	vrtAssert("deps-required-refined", get("c", "required") == any(false))
}

// VerifC04KeyedSpellings: the same key written in different spellings on either side (short, long, long with the
// default spelled out) is still the same key: one entry, the later file's.
func VerifC04KeyedSpellings() {
	which := vrtChoice("attr", 5)
	sb := vrtChoice("baseSpelling", 3)
	so := vrtChoice("overSpelling", 3)
	v := c04Val("v")
	attr := []string{"volumes", "devices", "secrets", "configs", "ports"}[which]
	entry := func(sp int, side string) any {
		switch which {
		case 0:
			src := "v" + side
			switch sp {
			case 0:
				return src + ":/t" + v
			case 1:
				return map[string]any{"type": "volume", "source": src, "target": "/t" + v}
			}
			return map[string]any{"type": "volume", "source": src, "target": "/t" + v, "read_only": false, "volume": map[string]any{}}
		case 1:
			src := "/dev/" + side
			switch sp {
			case 0:
				return src + ":/t" + v
			case 1:
				return src + ":/t" + v + ":rwm"
			}
			return map[string]any{"source": src, "target": "/t" + v, "permissions": "rwm"}
		case 2, 3:
			def := "/run/secrets/s" + v
			if which == 3 {
				def = "/s" + v
			}
			switch sp {
			case 0:
				return "s" + v
			case 1:
				return map[string]any{"source": "s" + v}
			}
			return map[string]any{"source": "s" + v, "target": def, "mode": 288}
		}
		switch sp {
		case 0:
			return "8080:80"
		case 1:
			if side == "o" {
				// published written as a YAML number
				return map[string]any{"target": 80, "published": 8080}
			}
			return map[string]any{"target": 80, "published": "8080"}
		}
		return map[string]any{"target": 80, "published": "8080", "protocol": "tcp", "mode": "ingress"}
	}
	keep := []any{"vk:/keep", "/dev/k:/keep", "sk", "sk", "9090:90"}[which]
	base := c04Doc(attr, []any{entry(sb, "b"), keep})
	over := c04Over(attr, []any{entry(so, "o")})
	for _, d := range []map[string]any{base, over} {
		switch which {
		case 0:
			d["volumes"] = map[string]any{"vb": nil, "vo": nil, "vk": nil}
		case 2:
			d["secrets"] = map[string]any{"s" + v: map[string]any{"file": "f"}, "sk": map[string]any{"file": "f"}}
		case 3:
			d["configs"] = map[string]any{"s" + v: map[string]any{"file": "f"}, "sk": map[string]any{"file": "f"}}
		}
	}
	m, err := tcLoad(nil, nil, base, over)
	vrtObserve("err", err != nil)
	vrtAssert("loads#"+attr, err == nil)
	if err != nil {
		vrtObserve("msg", err.Error())
		return
	}
	l, _ := tcSvc(m, "s")[attr].([]any)
	vrtObserve("list", l)
	vrtAssert("one-entry-per-key-whatever-the-spelling#"+attr, len(l) == 2)
	// the surviving entry is the later file's
	for _, e := range l {
		mm, _ := e.(map[string]any)
		src, _ := mm["source"].(string)
		switch which {
		case 0:
			vrtAssert("later-file-wins#volumes", src == "vo" || src == "vk")
		case 1:
			vrtAssert("later-file-wins#devices", src == "/dev/o" || src == "/dev/k")
		}
	}
}

// VerifC04Unicity: a keyed list of up to five entries over three keys, in every arrangement (duplicates of an
// earlier entry before, between and after new keys), split at every point between a base and an override file:
// one entry per key, the last value of each key, nothing else lost.
func VerifC04Unicity() {
	which := vrtChoice("attr", 3)
	attr := []string{"environment", "labels", "ports"}[which]
	n := 2 + vrtChoice("entries", vrtParam("N", 4))
	keys := []string{"A", "B", "C"}
	ports := []string{"8080", "9000", "9001"}
	var entries []any
	last := map[string]string{}
	for k := 0; k < n; k++ {
		ki := vrtChoice("key", 3)
		val := string(rune('1' + k))
		if which == 2 {
			// the same published:target pair is the same port; the payload that tells entries apart is the mode
			mode := []string{"ingress", "host"}[k%2]
			entries = append(entries, map[string]any{"target": 80, "published": ports[ki], "mode": mode})
			last[ports[ki]] = mode
		} else {
			entries = append(entries, keys[ki]+"="+val)
			last[keys[ki]] = val
		}
	}
	split := vrtChoice("splitAt", n+1)
	base := c04Doc(attr, entries[:split])
	over := c04Over(attr, entries[split:])
	docs := []map[string]any{base, over}
	if split == n {
		docs = docs[:1]
	}
	if split == 0 {
		base = c04Doc(attr, entries)
		docs = []map[string]any{base}
	}
	m, err := tcLoad(nil, nil, docs...)
	vrtObserve("err", err != nil)
	vrtAssert("loads#"+attr, err == nil)
	if err != nil {
		vrtObserve("msg", err.Error())
		return
	}
	got := map[string]string{}
	count := 0
	switch l := tcSvc(m, "s")[attr].(type) {
	case []any:
		for _, e := range l {
			count++
			switch x := e.(type) {
			case string:
				kv, _ := c04KV([]any{x})
				for k, v := range kv {
					got[k] = v
				}
			case map[string]any:
				p, _ := x["published"].(string)
				mo, _ := x["mode"].(string)
				got[p] = mo
			}
		}
	case map[string]any:
		for k, v := range l {
			count++
			s, _ := v.(string)
			got[k] = s
		}
	}
	vrtObserve("got", got)
	vrtAssert("one-entry-per-key#"+attr, count == len(last))
	vrtAssert("last-value-of-every-key#"+attr, vrtDeepEqual(got, last))
}

// VerifC04Ipam: ipam configs are keyed by subnet: the later file refines the config of the same subnet, base configs it
// does not mention are preserved, new subnets are appended.
func VerifC04Ipam() {
	subs := []string{"10.0.0.0/24", "10.0.1.0/24", "10.0.2.0/24"}
	nb := 1 + vrtChoice("baseConfigs", 3)
	var base []any
	for k := 0; k < nb; k++ {
		base = append(base, map[string]any{"subnet": subs[k], "ip_range": "r" + string(rune('0'+k))})
	}
	var over []any
	want := map[string]string{}
	for k := 0; k < nb; k++ {
		want[subs[k]] = ""
	}
	no := 1 + vrtChoice("overrideConfigs", 2)
	for k := 0; k < no; k++ {
		sub := subs[vrtChoice("overrideSubnet", 3)]
		gw := "g" + string(rune('0'+k))
		over = append(over, map[string]any{"subnet": sub, "gateway": gw})
		want[sub] = gw
	}
	mk := func(cfg []any) map[string]any {
		return map[string]any{"services": map[string]any{"s": map[string]any{"image": "i"}},
			"networks": map[string]any{"n": map[string]any{"ipam": map[string]any{"config": cfg}}}}
	}
	m, err := tcLoad(nil, nil, mk(base), mk(over))
	vrtObserve("err", err != nil)
	vrtAssert("loads", err == nil)
	if err != nil {
		return
	}
	nw, _ := m["networks"].(map[string]any)["n"].(map[string]any)
	ip, _ := nw["ipam"].(map[string]any)
	l, _ := ip["config"].([]any)
	got := map[string]string{}
	for _, e := range l {
		mm, _ := e.(map[string]any)
		s, _ := mm["subnet"].(string)
		g, _ := mm["gateway"].(string)
		got[s] = g
		// a base config keeps its own attributes
		for k := 0; k < nb; k++ {
			if s == subs[k] {
				vrtAssert("base-config-attributes-kept", mm["ip_range"] == any("r"+string(rune('0'+k))))
			}
		}
	}
	vrtObserve("got", got)
	vrtAssert("one-config-per-subnet-base-kept-override-merged", vrtDeepEqual(got, want) && len(l) == len(want))
}

// VerifC04HostsUnion: extra_hosts of a later file are added to those of the earlier one, a host=address pair both files
// name appearing once - for every subset of four pairs on either side (two of them for the same host), in list or
// mapping spelling, for the service and for its build.
func VerifC04HostsUnion() {
	pairs := [][2]string{{"alpha", "10.0.0.1"}, {"beta", "10.0.0.2"}, {"gamma", "10.0.0.3"}, {"alpha", "10.0.9.9"}}
	mb := 1 + vrtChoice("baseSubset", 15)
	mo := 1 + vrtChoice("laterSubset", 15)
	spell := func(mask int, asList bool) any {
		if asList {
			var l []any
			for i, p := range pairs {
				if mask&(1<<i) != 0 {
					l = append(l, p[0]+"="+p[1])
				}
			}
			return l
		}
		m := map[string]any{}
		for i, p := range pairs {
			if mask&(1<<i) != 0 {
				if old, ok := m[p[0]]; ok {
					m[p[0]] = []any{old, p[1]}
				} else {
					m[p[0]] = p[1]
				}
			}
		}
		return m
	}
	baseList := vrtChoice("baseList", 2) == 1
	overList := vrtChoice("overList", 2) == 1
	inBuild := vrtChoice("inBuild", 2) == 1
	mk := func(first bool, v any) map[string]any {
		s := map[string]any{}
		if first {
			s["image"] = "i"
		}
		if inBuild {
			b := map[string]any{"extra_hosts": v}
			if first {
				b["context"] = "/ctx"
			}
			s["build"] = b
		} else {
			s["extra_hosts"] = v
		}
		return map[string]any{"services": map[string]any{"s": s}}
	}
	p, err := tcLoadProject(nil, nil, mk(true, spell(mb, baseList)), mk(false, spell(mo, overList)))
	vrtObserve("err", err != nil)
	vrtAssert("loads", err == nil)
	if err != nil {
		vrtObserve("msg", err.Error())
		return
	}
	hosts := p.Services["s"].ExtraHosts
	if inBuild {
		hosts = p.Services["s"].Build.ExtraHosts
	}
	vrtObserve("hosts", hosts)
	union := mb | mo
	total := 0
	for i, pr := range pairs {
		n := 0
		for _, a := range hosts[pr[0]] {
			if a == pr[1] {
				n++
			}
		}
		if union&(1<<i) != 0 {
			vrtAssert("pair-of-either-file-present-once", n == 1)
			total++
		} else {
			vrtAssert("pair-of-neither-file-absent", n == 0)
		}
	}
	have := 0
	for _, l := range hosts {
		have += len(l)
	}
	vrtAssert("nothing-else", have == total)
}
