package loader

import (
	"context"
	"strings"

	"github.com/compose-spec/compose-go/v2/types"
)

// c05Remote is a resource loader for references of the form "<prefix>name": it fetches into a local cache directory.
type c05Remote struct {
	prefix string
	cache  string
}

func (r c05Remote) Accept(p string) bool { return strings.HasPrefix(p, r.prefix) }
func (r c05Remote) Load(_ context.Context, p string) (string, error) {
	return r.cache + "/" + strings.TrimPrefix(p, r.prefix), nil
}
func (r c05Remote) Dir(p string) string { return r.cache }

// VerifC05Remote: extends / include references that a registered remote loader recognises are handed to that loader
// and never rewritten as local paths - whichever of several loaders recognises them, at whatever depth of an extends
// chain that crosses directories.
func VerifC05Remote() {
	root := vrtRoot()
	w := root + "/w"
	loaders := []c05Remote{{"oci:", root + "/cache1"}, {"git:", root + "/cache2"}, {"s3:", root + "/cache3"}}
	nl := 1 + vrtChoice("loaders", 3)
	used := vrtChoice("usedLoader", nl)
	ref := loaders[used].prefix + "deep.yaml"
	vrtYamlFile(loaders[used].cache+"/deep.yaml", map[string]any{"services": map[string]any{
		"deep": map[string]any{"image": "deepimg", "build": map[string]any{"context": "./dctx"}}}})
	depth := vrtChoice("depth", 2)
	var main map[string]any
	if depth == 0 {
		main = map[string]any{"services": map[string]any{"web": map[string]any{"extends": map[string]any{"file": ref, "service": "deep"}, "user": "u"}}}
	} else {
		// main -> shared/base.yaml (another directory) -> remote reference
		vrtYamlFile(w+"/shared/base.yaml", map[string]any{"services": map[string]any{
			"base": map[string]any{"extends": map[string]any{"file": ref, "service": "deep"}, "hostname": "mid"}}})
		main = map[string]any{"services": map[string]any{"web": map[string]any{"extends": map[string]any{"file": "shared/base.yaml", "service": "base"}, "user": "u"}}}
	}
	viaInclude := vrtChoice("viaInclude", 2) == 1
	if viaInclude {
		// the same main document, reached through an include of a sub-directory
		vrtYamlFile(w+"/inc/compose.yaml", main)
		if depth == 1 {
			vrtYamlFile(w+"/inc/shared/base.yaml", map[string]any{"services": map[string]any{
				"base": map[string]any{"extends": map[string]any{"file": ref, "service": "deep"}, "hostname": "mid"}}})
		}
		main = map[string]any{"include": []any{"inc/compose.yaml"}, "services": map[string]any{"own": map[string]any{"image": "i"}}}
	}
	p, err := LoadWithContext(context.Background(), types.ConfigDetails{
		WorkingDir:  w,
		ConfigFiles: []types.ConfigFile{{Filename: w + "/compose.yaml", Config: main}},
		Environment: types.Mapping{},
	}, func(o *Options) {
		o.SetProjectName("p", true)
		for k := 0; k < nl; k++ {
			o.ResourceLoaders = append(o.ResourceLoaders, loaders[k])
		}
	})
	vrtObserve("err", err != nil)
	if err != nil {
		vrtObserve("msg", err.Error())
	}
	vrtAssert("remote-reference-loads", err == nil)
	if err != nil {
		return
	}
	web := p.Services["web"]
	vrtAssert("remote-base-values", web.Image == "deepimg" && web.User == "u")
	vrtAssert("remote-base-paths-anchored-at-the-loader-directory", web.Build != nil && web.Build.Context == loaders[used].cache+"/dctx")
}
