package loader

import (
	"context"
	"strings"

	"github.com/compose-spec/compose-go/v2/types"
)

// c05Remote is a resource loader for references of the form "<prefix>name": it fetches into a local cache directory.
type c05Remote struct {
	prefix string
	cache  string
}

func (r c05Remote) Accept(p string) bool { return strings.HasPrefix(p, r.prefix) }
func (r c05Remote) Load(_ context.Context, p string) (string, error) {
	return r.cache + "/" + strings.TrimPrefix(p, r.prefix), nil
}
func (r c05Remote) Dir(p string) string { return r.cache }

// VerifC05Remote: extends / include references that a registered remote loader recognises are handed to that loader
// and never rewritten as local paths - whichever of several loaders recognises them, at whatever depth of an extends
// chain that crosses directories.
func VerifC05Remote() {
	root := vrtRoot()
	w := root + "/w"
	loaders := []c05Remote{{"oci:", root + "/cache1"}, {"git:", root + "/cache2"}, {"s3:", root + "/cache3"}}
	nl := 1 + vrtChoice("loaders", 3)
	used := vrtChoice("usedLoader", nl)
	ref := loaders[used].prefix + "deep.yaml"
	vrtYamlFile(loaders[used].cache+"/deep.yaml", map[string]any{"services": map[string]any{
		"deep": map[string]any{"image": "deepimg", "build": map[string]any{"context": "./dctx"}}}})
	depth := vrtChoice("depth", 2)
	var main map[string]any
	if depth == 0 {
		main = map[string]any{"services": map[string]any{"web": map[string]any{"extends": map[string]any{"file": ref, "service": "deep"}, "user": "u"}}}
	} else {
		// main -> shared/base.yaml (another directory) -> remote reference
		vrtYamlFile(w+"/shared/base.yaml", map[string]any{"services": map[string]any{
			"base": map[string]any{"extends": map[string]any{"file": ref, "service": "deep"}, "hostname": "mid"}}})
		main = map[string]any{"services": map[string]any{"web": map[string]any{"extends": map[string]any{"file": "shared/base.yaml", "service": "base"}, "user": "u"}}}
	}
	// further lookups by the same file after the first one: another extends into a third directory, and an include
	viaInclude := vrtChoice("viaInclude", 2) == 1
	more := !viaInclude && vrtChoice("furtherLookups", 2) == 1
	if more {
		vrtYamlFile(w+"/second/b.yaml", map[string]any{"services": map[string]any{"b": map[string]any{"image": "second", "build": map[string]any{"context": "./sctx"}}}})
		vrtYamlFile(w+"/third/inc.yaml", map[string]any{"services": map[string]any{"inc": map[string]any{"image": "third", "build": map[string]any{"context": "./tctx"}}}})
		main["services"].(map[string]any)["xapi"] = map[string]any{"extends": map[string]any{"file": "second/b.yaml", "service": "b"}}
		main["services"].(map[string]any)["aapi"] = map[string]any{"extends": map[string]any{"file": "second/b.yaml", "service": "b"}}
		main["include"] = []any{"third/inc.yaml"}
	}
	if viaInclude {
		// the same main document, reached through an include of a sub-directory
		vrtYamlFile(w+"/inc/compose.yaml", main)
		if depth == 1 {
			vrtYamlFile(w+"/inc/shared/base.yaml", map[string]any{"services": map[string]any{
				"base": map[string]any{"extends": map[string]any{"file": ref, "service": "deep"}, "hostname": "mid"}}})
		}
		main = map[string]any{"include": []any{"inc/compose.yaml"}, "services": map[string]any{"own": map[string]any{"image": "i"}}}
	}
	p, err := LoadWithContext(context.Background(), types.ConfigDetails{
		WorkingDir:  w,
		ConfigFiles: []types.ConfigFile{{Filename: w + "/compose.yaml", Config: main}},
		Environment: types.Mapping{},
	}, func(o *Options) {
		o.SetProjectName("p", true)
		for k := 0; k < nl; k++ {
			o.ResourceLoaders = append(o.ResourceLoaders, loaders[k])
		}
	})
	vrtObserve("err", err != nil)
	if err != nil {
		vrtObserve("msg", err.Error())
	}
	vrtAssert("remote-reference-loads", err == nil)
	if err != nil {
		return
	}
	web := p.Services["web"]
	vrtAssert("remote-base-values", web.Image == "deepimg" && web.User == "u")
	vrtAssert("remote-base-paths-anchored-at-the-loader-directory", web.Build != nil && web.Build.Context == loaders[used].cache+"/dctx")
	if more && !viaInclude {
		for _, n := range []string{"xapi", "aapi"} {
			sv := p.Services[n]
			vrtAssert("later-local-extends-anchored-at-its-directory", sv.Image == "second" && sv.Build != nil && sv.Build.Context == w+"/second/sctx")
		}
		inc := p.Services["inc"]
		vrtAssert("later-include-anchored-at-its-directory", inc.Image == "third" && inc.Build != nil && inc.Build.Context == w+"/third/tctx")
	}
}
