package loader

import "github.com/compose-spec/compose-go/v2/types"

// C03 at pipeline level: a document using short syntaxes loads to the same model as the
// document spelling the equivalent long forms, also when a second file refines one entry.
func VerifC03Pipeline() {
	which := vrtChoice("attr", 9)
	a := "x" + vrtString("a", vrtParam("VL", 1), "ab")
	b := "y" + vrtString("b", vrtParam("VL", 1), "ab")
	var attr string
	var short, long any
	extra := map[string]any{}
	switch which {
	case 0:
		attr = "devices"
		short = []any{"/dev/" + a + ":/dev/" + a + ":rw", "/dev/" + b + ":/dev/" + b + ":rw"}
		long = []any{map[string]any{"source": "/dev/" + a, "target": "/dev/" + a, "permissions": "rw"}, map[string]any{"source": "/dev/" + b, "target": "/dev/" + b, "permissions": "rw"}}
	case 1:
		attr = "devices"
		short = []any{"/dev/" + a, "/dev/" + b + ":/dev/t"}
		long = []any{map[string]any{"source": "/dev/" + a, "target": "/dev/" + a, "permissions": "rwm"}, map[string]any{"source": "/dev/" + b, "target": "/dev/t", "permissions": "rwm"}}
	case 2:
		attr = "volumes"
		short = []any{"/" + a + ":/t1:ro", "vol:/t2"}
		long = []any{map[string]any{"type": "bind", "source": "/" + a, "target": "/t1", "read_only": true, "bind": map[string]any{"create_host_path": true}},
			map[string]any{"type": "volume", "source": "vol", "target": "/t2", "volume": map[string]any{}}}
		extra["volumes"] = map[string]any{"vol": nil}
	case 3:
		attr = "secrets"
		short = []any{"sa", "sb"}
		long = []any{map[string]any{"source": "sa"}, map[string]any{"source": "sb"}}
		extra["secrets"] = map[string]any{"sa": map[string]any{"file": "/f" + a}, "sb": map[string]any{"file": "/f" + b}}
	case 4:
		attr = "env_file"
		short = []any{"/e/" + a, "/e/" + b}
		long = []any{map[string]any{"path": "/e/" + a, "required": true}, map[string]any{"path": "/e/" + b, "required": true}}
	case 5:
		attr = "depends_on"
		short = []any{"d1", "d2"}
		long = map[string]any{"d1": map[string]any{"condition": "service_started", "required": true}, "d2": map[string]any{"condition": "service_started", "required": true}}
	case 6:
		attr = "build"
		short = "/ctx/" + a
		long = map[string]any{"context": "/ctx/" + a}
	case 8:
		attr = "environment"
		short = []any{"A=" + a, "EMPTY=", "INHERIT"}
		long = map[string]any{"A": a, "EMPTY": "", "INHERIT": nil}
	case 7:
		attr = "networks"
		short = []any{"n1", "n2"}
		long = map[string]any{"n1": nil, "n2": nil}
		extra["networks"] = map[string]any{"n1": nil, "n2": nil}
	}
	mk := func(v any) map[string]any {
		d := map[string]any{"services": map[string]any{
			"s":  map[string]any{"image": "i", attr: v},
			"d1": map[string]any{"image": "i"},
			"d2": map[string]any{"image": "i"},
		}}
		for k, e := range extra {
			d[k] = e
		}
		return d
	}
	var over []map[string]any
	refine := 0
	if which == 5 {
		refine = vrtChoice("refine", 3)
	}
	if refine == 1 {
		over = append(over, map[string]any{"services": map[string]any{"s": map[string]any{"depends_on": map[string]any{"d1": map[string]any{"condition": "service_healthy"}}}}})
	}
	if refine == 2 {
		// the spellings under test arrive in an override, on top of a base that made the same dependency optional
		baseDoc := mk(map[string]any{"d1": map[string]any{"condition": "service_healthy", "required": false}})
		ovr := func(v any) map[string]any {
			return map[string]any{"services": map[string]any{"s": map[string]any{"depends_on": v}}}
		}
		ms, es := tcLoad(nil, nil, baseDoc, ovr(short))
		ml, el := tcLoad(nil, nil, mk(map[string]any{"d1": map[string]any{"condition": "service_healthy", "required": false}}), ovr(long))
		vrtAssert("both-load", es == nil && el == nil)
		if es == nil && el == nil {
			vrtObserve("short", tcSvc(ms, "s")[attr])
			vrtAssert("short-equals-long-in-override", vrtDeepEqual(tcSvc(ms, "s")[attr], tcSvc(ml, "s")[attr]))
		}
		return
	}
	// the loader environment defines the names used by valueless / empty entries
	env := types.Mapping{"EMPTY": "from-host", "INHERIT": "inherited"}
	ms, es := tcLoad(env, nil, append([]map[string]any{mk(short)}, over...)...)
	ml, el := tcLoad(env, nil, append([]map[string]any{mk(long)}, over...)...)
	vrtObserve("errs", es != nil)
	vrtObserve("errl", el != nil)
	vrtAssert("both-load", es == nil && el == nil)
	if es != nil || el != nil {
		return
	}
	vrtObserve("short", tcSvc(ms, "s")[attr])
	if attr == "environment" {
		// compare as key/value sets (the list spelling stays a list in the dict-level model)
		kvs, ok1 := c04KV(tcSvc(ms, "s")[attr])
		kvl, ok2 := c04KV(tcSvc(ml, "s")[attr])
		vrtAssert("short-equals-long", ok1 && ok2 && vrtDeepEqual(any(kvs), any(kvl)))
		vrtAssert("empty-value-stays-empty", kvs["EMPTY"] == "" && kvl["EMPTY"] == "")
		vrtAssert("valueless-inherits", kvs["INHERIT"] == "inherited" && kvl["INHERIT"] == "inherited")
		return
	}
	vrtAssert("short-equals-long", vrtDeepEqual(tcSvc(ms, "s")[attr], tcSvc(ml, "s")[attr]))
}
