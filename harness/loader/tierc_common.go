package loader

import (
	"context"

	"github.com/compose-spec/compose-go/v2/types"
)

// tcLoad runs the real dict-level pipeline (interpolate, extends, merge, validate,
// canonical, defaults, normalize, path resolution) on pre-parsed documents.
func tcLoad(env types.Mapping, opts func(*Options), docs ...map[string]any) (map[string]any, error) {
	var files []types.ConfigFile
	names := []string{vrtRoot() + "/w/compose.yaml", vrtRoot() + "/w/override.yaml", vrtRoot() + "/w/third.yaml"}
	for i, d := range docs {
		files = append(files, types.ConfigFile{Filename: names[i], Config: d})
	}
	return LoadModelWithContext(context.Background(), types.ConfigDetails{
		WorkingDir:  vrtRoot() + "/w",
		ConfigFiles: files,
		Environment: env,
	}, func(o *Options) {
		o.SetProjectName("p", true)
		o.ResolvePaths = true
		if opts != nil {
			opts(o)
		}
	})
}

func tcSvc(m map[string]any, name string) map[string]any {
	if m == nil {
		return nil
	}
	s, _ := m["services"].(map[string]any)
	if s == nil {
		return nil
	}
	x, _ := s[name].(map[string]any)
	return x
}
