package loader

import (
	"context"

	"github.com/compose-spec/compose-go/v2/interpolation"
	"github.com/compose-spec/compose-go/v2/types"
)

// tcLoad runs the real dict-level pipeline (interpolate, extends, merge, validate,
// canonical, defaults, normalize, path resolution) on pre-parsed documents.
func tcLoad(env types.Mapping, opts func(*Options), docs ...map[string]any) (map[string]any, error) {
	tcPrelude(docs)
	docs = tcRoute(docs)
	var files []types.ConfigFile
	names := []string{vrtRoot() + "/w/compose.yaml", vrtRoot() + "/w/override.yaml", vrtRoot() + "/w/third.yaml"}
	for i, d := range docs {
		files = append(files, types.ConfigFile{Filename: names[i], Config: d})
	}
	return LoadModelWithContext(context.Background(), types.ConfigDetails{
		WorkingDir:  vrtRoot() + "/w",
		ConfigFiles: files,
		Environment: env,
	}, func(o *Options) {
		o.SetProjectName("p", true)
		o.ResolvePaths = true
		if opts != nil {
			opts(o)
		}
	})
}

func tcSvc(m map[string]any, name string) map[string]any {
	if m == nil {
		return nil
	}
	s, _ := m["services"].(map[string]any)
	if s == nil {
		return nil
	}
	x, _ := s[name].(map[string]any)
	return x
}

// tcPrelude (harness parameter HISTORY=1): before the load under test the same process interpolates and loads
// copies of the documents with other settings - no conversion table, another environment, other Skip* options.
// A load depends on its own inputs only (C02), so every oracle of the harness applies unchanged.
func tcPrelude(docs []map[string]any) {
	if vrtParam("HISTORY", 0) != 1 {
		return
	}
	for _, d := range docs {
		interpolation.Interpolate(genCopy(d).(map[string]any), interpolation.Options{ //nolint:errcheck
			LookupValue: func(k string) (string, bool) { return "1", true },
		})
	}
	var files []types.ConfigFile
	names := []string{vrtRoot() + "/w/compose.yaml", vrtRoot() + "/w/override.yaml", vrtRoot() + "/w/third.yaml"}
	for i, d := range docs {
		files = append(files, types.ConfigFile{Filename: names[i], Config: genCopy(d).(map[string]any)})
	}
	for round := 0; round < 2; round++ {
		LoadWithContext(context.Background(), types.ConfigDetails{ //nolint:errcheck
			WorkingDir:  vrtRoot() + "/w",
			ConfigFiles: files,
			Environment: types.Mapping{"E": "other", "V": "other", "TAG": "other", "A": "other", "X": "0"},
		}, func(o *Options) {
			o.SetProjectName("other", true)
			if round == 1 {
				o.SkipInterpolation = true
				o.SkipConsistencyCheck = true
				o.SkipResolveEnvironment = true
			}
		})
	}
}

// tcRoute (harness parameter ROUTE=1): a single document reaches the loader through an `include` of a file of the
// project directory instead of being the main file. Including equals pasting (C06), so every oracle of the harness
// applies unchanged. Documents that carry a project `name` or include something themselves are left alone.
func tcRoute(docs []map[string]any) []map[string]any {
	route := vrtParam("ROUTE", 0)
	if route == 0 || len(docs) != 1 {
		return docs
	}
	d := docs[0]
	if _, has := d["name"]; has {
		return docs
	}
	if _, has := d["include"]; has {
		return docs
	}
	tcRouteN++
	name := "zz-routed-" + string(rune('a'+tcRouteN%26)) + ".yaml"
	if route == 2 {
		// two levels deep, each level in a directory of its own: relative paths of the document then resolve
		// against the innermost directory, so only comparisons between documents routed alike make sense
		vrtYamlFile(vrtRoot()+"/w/zz-l1/zz-l2/"+name, genCopy(d).(map[string]any))
		vrtYamlFile(vrtRoot()+"/w/zz-l1/mid-"+name, map[string]any{"include": []any{"zz-l2/" + name}})
		return []map[string]any{{"include": []any{"zz-l1/mid-" + name}}}
	}
	vrtYamlFile(vrtRoot()+"/w/"+name, genCopy(d).(map[string]any))
	return []map[string]any{{"include": []any{name}}}
}

var tcRouteN int
