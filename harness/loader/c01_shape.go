package loader

// C01: loading is total. For every attribute path of the schema (read at check time)
// and every node kind at that path - singly, in base+override and under extends - the
// dict-level pipeline returns (model, nil) or (nil, error) and never panics. Any panic
// escaping the harness is reported by the engine keyed by its site.

// c01Hole builds a value of the chosen kind; strings are symbolic when SYM=1.
func c01Hole(tag string, kind int) any {
	str := func(n string) string {
		if vrtParam("SYM", 0) == 1 {
			return vrtString(tag+n, 2, "a1=:/.$-")
		}
		return "a"
	}
	switch kind {
	case 0:
		return nil
	case 1:
		return true
	case 2:
		return 1
	case 3:
		return 1.5
	case 4:
		return str("s")
	case 5:
		return []any{}
	case 6:
		return []any{str("e")}
	case 7:
		return []any{map[string]any{"k": str("v")}}
	case 8:
		return map[string]any{}
	case 9:
		return map[string]any{"k": str("v")}
	case 10:
		return map[string]any{"k": map[string]any{"k": str("v")}}
	case 11:
		return []any{1}
	case 12:
		return map[string]any{"k": nil}
	}
	return nil
}

const c01Kinds = 13

// kinds ordered by how often they reach distinct code (K2 < 13 keeps a prefix)
var c01Order = []int{0, 4, 6, 7, 9, 8, 2, 1, 3, 5, 10, 11, 12}

type c01Site struct {
	def   string // schema path of the properties object
	where int    // 0 service attr, 1 build.*, 2 deploy.*, 3 healthcheck.*, 4 network.*, 5 volume.*, 6 secret.*, 7 config.*, 8 top-level
}

var c01Sites = []c01Site{
	{"definitions/service/properties", 0},
	{"definitions/service/properties/build/oneOf/1/properties", 1},
	{"definitions/deployment/properties", 2},
	{"definitions/healthcheck/properties", 3},
	{"definitions/network/properties", 4},
	{"definitions/volume/properties", 5},
	{"definitions/secret/properties", 6},
	{"definitions/config/properties", 7},
	{"properties", 8},
}

// c01Doc places value v at attribute attr of the site.
func c01Doc(site c01Site, attr string, v any, svc string) map[string]any {
	s := map[string]any{"image": "i"}
	doc := map[string]any{"services": map[string]any{svc: s}}
	switch site.where {
	case 0:
		s[attr] = v
	case 1:
		s["build"] = map[string]any{"context": ".", attr: v}
	case 2:
		s["deploy"] = map[string]any{attr: v}
	case 3:
		s["healthcheck"] = map[string]any{attr: v}
	case 4:
		doc["networks"] = map[string]any{"n": map[string]any{attr: v}}
	case 5:
		doc["volumes"] = map[string]any{"n": map[string]any{attr: v}}
	case 6:
		doc["secrets"] = map[string]any{"n": map[string]any{attr: v}}
	case 7:
		doc["configs"] = map[string]any{"n": map[string]any{attr: v}}
	case 8:
		doc[attr] = v
	}
	return doc
}

func c01Options(o *Options) {
	if vrtParam("OPTS", 0) == 0 {
		return
	}
	switch vrtChoice("opt", 8) {
	case 1:
		o.SkipValidation = true
	case 2:
		o.SkipInterpolation = true
	case 3:
		o.SkipNormalization = true
	case 4:
		o.SkipConsistencyCheck = true
	case 5:
		o.SkipExtends = true
	case 6:
		o.SkipDefaultValues = true
	case 7:
		o.SkipValidation = true
		o.SkipConsistencyCheck = true
	}
}

func c01Pick() (c01Site, string) {
	si := vrtChoice("site", len(c01Sites))
	site := c01Sites[si]
	attrs := vrtSchemaKeys(site.def)
	vrtAssume(len(attrs) > 0)
	part, parts := vrtParam("PART", 0), vrtParam("PARTS", 1)
	var mine []string
	for i, a := range attrs {
		if i%parts == part {
			mine = append(mine, a)
		}
	}
	vrtAssume(len(mine) > 0)
	return site, mine[vrtChoice("attr", len(mine))]
}

// c01Load loads the documents down to the dict-level model or, with TYPED=1, all the way to the typed project (the
// decode step has type switches and conversions of its own); what is returned is only tested for nil.
func c01Load(opts func(*Options), docs ...map[string]any) (map[string]any, error) {
	if vrtParam("TYPED", 0) == 1 {
		p, err := tcLoadProject(nil, opts, docs...)
		if p == nil {
			return nil, err
		}
		return map[string]any{"name": p.Name}, err
	}
	return tcLoad(nil, opts, docs...)
}

func c01Outcome(m map[string]any, err error) {
	vrtObserve("err", err != nil)
	vrtAssert("project-xor-error", (m != nil) != (err != nil))
	if err == nil {
		vrtCover("loaded")
	} else {
		vrtCover("rejected")
	}
}

// VerifC01Single: one file, every attribute x every kind.
func VerifC01Single() {
	site, attr := c01Pick()
	k := vrtChoice("kind", c01Kinds)
	doc := c01Doc(site, attr, c01Hole("h", k), "s")
	m, err := c01Load(c01Options, doc)
	c01Outcome(m, err)
}

// VerifC01Override: base and override carry independently chosen kinds at the same attribute.
func VerifC01Override() {
	site, attr := c01Pick()
	k1 := vrtChoice("kind1", c01Kinds)
	k2 := c01Order[vrtChoice("kind2", vrtParam("K2", c01Kinds))]
	base := c01Doc(site, attr, c01Hole("b", k1), "s")
	over := c01Doc(site, attr, c01Hole("o", k2), "s")
	// the override must not repeat image: keep it minimal
	m, err := c01Load(c01Options, base, over)
	c01Outcome(m, err)
}

// VerifC01Extends: service s extends service t of the same file; both carry the attribute.
func VerifC01Extends() {
	site, attr := c01Pick()
	vrtAssume(site.where <= 3)
	k1 := vrtChoice("kind1", c01Kinds)
	k2 := c01Order[vrtChoice("kind2", vrtParam("K2", c01Kinds))]
	doc := c01Doc(site, attr, c01Hole("b", k1), "t")
	ext := c01Doc(site, attr, c01Hole("o", k2), "s")
	s := ext["services"].(map[string]any)["s"].(map[string]any)
	s["extends"] = map[string]any{"service": "t"}
	doc["services"].(map[string]any)["s"] = s
	m, err := c01Load(c01Options, doc)
	c01Outcome(m, err)
}

// VerifC01ShortForms: short-syntax strings (well-formed or not) at the attributes that
// accept them, under every Skip* option: never a panic, always project xor error.
func VerifC01ShortForms() {
	attrs := []string{"volumes", "devices", "secrets", "configs", "env_file", "depends_on", "networks", "extra_hosts", "tmpfs", "ulimits", "ports"}
	n := vrtParam("ATTRS", len(attrs))
	attr := attrs[vrtChoice("attr", n)]
	alpha := ":/a"
	if attr == "ports" {
		alpha = ":-/18"
	}
	// optional concrete non-ASCII first character (symbolic bytes are 7-bit)
	s := []string{"", "\u20ac"}[vrtChoice("atom", 2)] + vrtString("s", vrtParam("L", 4), alpha)
	var v any = []any{s}
	if attr == "ulimits" {
		v = map[string]any{"nofile": s}
	}
	doc := map[string]any{"services": map[string]any{"s": map[string]any{"image": "i", attr: v}}}
	m, err := c01Load(func(o *Options) {
		switch vrtChoice("opt", 5) {
		case 1:
			o.SkipInterpolation = true
		case 2:
			o.SkipValidation = true
		case 3:
			o.SkipConsistencyCheck = true
		case 4:
			o.SkipNormalization = true
		}
	}, doc)
	c01Outcome(m, err)
}
