package loader

import (
	"context"

	"github.com/compose-spec/compose-go/v2/types"
)

// C06: include == pasting the included, fully resolved model. Real pipeline over a
// virtual file system; included files are delivered by the YAML stub as parsed trees.

func VerifC06Include() {
	root := vrtRoot()
	w := root + "/w"
	v := "x" + vrtString("v", vrtParam("VL", 1), "ab")
	// the included file lives below the project directory, or in a sibling directory whose name starts
	// with the project directory's name
	subRel := []string{"sub", "../w-sib"}[vrtChoice("includedDir", 2)]
	subAbs := w + "/sub"
	if subRel != "sub" {
		subAbs = root + "/w-sib"
	}
	// included project: sub/inc.yaml
	inc := map[string]any{
		"services": map[string]any{
			"inc": map[string]any{"image": "img-${TAG-none}-${ONLYSUB:-none}-${DOTONLY:-no}", "build": map[string]any{"context": "./ctx" + v},
				"env_file": []any{"./svc.env"}, "volumes": []any{"./data:/data", "named:/n"}},
			// path attributes written as mappings inside sequences, inherited through a same-file extends
			"lbase": map[string]any{"image": "l", "env_file": []any{map[string]any{"path": "./l.env", "required": false}},
				"volumes": []any{map[string]any{"type": "bind", "source": "./ldata", "target": "/l"}},
				"develop": map[string]any{"watch": []any{map[string]any{"path": "./src", "action": "sync", "target": "/src"}}}},
			"lkid": map[string]any{"extends": map[string]any{"service": "lbase"}},
		},
		"networks": map[string]any{"incnet": nil},
		"volumes":  map[string]any{"named": nil},
		"secrets":  map[string]any{"incsec": map[string]any{"file": "./sec.txt"}},
		// a config and a secret sourced from variables of the parent environment (resolved inside the include already)
		"configs": map[string]any{"inccfg": map[string]any{"file": "./cfg.txt"}, "envcfg": map[string]any{"environment": "CFGVAR"}},
	}
	inc["secrets"].(map[string]any)["envsec"] = map[string]any{"environment": "CFGVAR"}
	vrtYamlFile(subAbs+"/inc.yaml", inc)
	// .env of the included project: TAG also defined by the parent (parent wins), ONLYSUB only here
	hasDotEnv := vrtChoice("dotenv", 2) == 1
	pd := vrtChoice("project_directory", 5)
	if hasDotEnv {
		if pd == 1 || pd == 2 {
			// with an explicit project_directory the .env beside the included file is a decoy
			vrtFile(subAbs+"/.env", "TAG=decoy\nONLYSUB=decoy\nDOTONLY=decoy\n")
		} else {
			vrtFile(subAbs+"/.env", "TAG=fromsub\nONLYSUB=sub"+v+"\nDOTONLY=dot\n")
		}
	}
	long := map[string]any{"path": subRel + "/inc.yaml"}
	baseDir := subAbs
	switch pd {
	case 1: // relative project_directory
		// a directory whose name looks like a file name
		long["project_directory"] = "pd.v2"
		baseDir = w + "/pd.v2"
		vrtDir(w + "/pd.v2")
		if hasDotEnv {
			vrtFile(w+"/pd.v2/.env", "TAG=fromsub\nONLYSUB=sub"+v+"\nDOTONLY=dot\n")
		}
	case 2: // absolute project_directory different from the included file's directory
		long["project_directory"] = w + "/abs"
		baseDir = w + "/abs"
		vrtDir(w + "/abs")
		if hasDotEnv {
			vrtFile(w+"/abs/.env", "TAG=fromsub\nONLYSUB=sub"+v+"\nDOTONLY=dot\n")
		}
	}
	var include any = []any{long}
	if pd == 3 {
		include = []any{subRel + "/inc.yaml"} // short syntax
	}
	chain := false
	if pd == 4 {
		// explicit env_file list: the second file derives a value from a variable that the parent
		// environment and the first file both define (the parent's value must be used)
		chain = true
		// relative to the including project, or absolute
		switch vrtChoice("envFilePaths", 3) {
		case 0:
			long["env_file"] = []any{subRel + "/e1.env", subRel + "/e2.env"}
		case 1:
			long["env_file"] = []any{subAbs + "/e1.env", subAbs + "/e2.env"}
		case 2:
			long["env_file"] = []any{subRel + "/e1.env", subAbs + "/e2.env"}
		}
		vrtFile(subAbs+"/e1.env", "TAG=frome1\n")
		vrtFile(subAbs+"/e2.env", "ONLYSUB=d-${TAG}\n")
	}
	// the parent environment defines TAG, defines it empty (still defined), or does not define it
	parentMode := vrtChoice("parentDefinesTAG", 3)
	parentTag := parentMode != 0
	parentVal := []string{"", "parent", ""}[parentMode]
	env := types.Mapping{"CFGVAR": "cv"}
	if parentTag {
		env["TAG"] = parentVal
	}
	main := map[string]any{
		"include":  include,
		"services": map[string]any{"own": map[string]any{"image": "own-${ONLYSUB:-unset}"}},
	}
	// a second parent file interpolated after the include returned
	over := map[string]any{"services": map[string]any{"own": map[string]any{"hostname": "h-${ONLYSUB:-unset}"}}}
	m, err := tcLoad(env, nil, main, over)
	vrtObserve("err", err != nil)
	if err != nil {
		vrtObserve("msg", err.Error())
	}
	vrtAssert("include-loads", err == nil)
	if err != nil {
		return
	}
	s := tcSvc(m, "inc")
	vrtAssert("included-service-present", s != nil)
	if s == nil {
		return
	}
	vrtObserve("inc", s)
	// environment layering: parent wins, included .env only for what the parent lacks
	tag := "none"
	if parentTag {
		tag = parentVal
	} else if hasDotEnv {
		tag = "fromsub"
	}
	only := "none"
	if hasDotEnv {
		only = "sub" + v
	}
	if chain {
		if parentTag {
			tag, only = parentVal, "d-"+parentVal
		} else {
			tag, only = "frome1", "d-frome1"
		}
	}
	// a variable only the .env of the included project defines: seen unless the entry declares its own env_file
	dot := "no"
	if hasDotEnv && !chain {
		dot = "dot"
	}
	vrtAssert("included-interpolation-env", s["image"] == any("img-"+tag+"-"+only+"-"+dot))
	// the included env must not leak into the parent's own interpolation
	vrtAssert("parent-main-file-not-affected", tcSvc(m, "own")["image"] == any("own-unset"))
	vrtAssert("parent-later-file-not-affected", tcSvc(m, "own")["hostname"] == any("h-unset"))
	// relative paths anchored at the included project directory
	b, _ := s["build"].(map[string]any)
	vrtAssert("included-build-context-anchored", b["context"] == any(baseDir+"/ctx"+v))
	ef, _ := s["env_file"].([]any)
	vrtAssert("included-env-file-anchored", len(ef) == 1 && ef[0].(map[string]any)["path"] == any(baseDir+"/svc.env"))
	vols, _ := s["volumes"].([]any)
	vrtAssert("included-bind-anchored", len(vols) == 2 && vols[0].(map[string]any)["source"] == any(baseDir+"/data"))
	vrtAssert("included-named-volume-untouched", len(vols) == 2 && vols[1].(map[string]any)["source"] == any("named"))
	for _, n := range []string{"lbase", "lkid"} {
		ls := tcSvc(m, n)
		vrtAssert("included-extends-pair-present", ls != nil)
		if ls == nil {
			continue
		}
		lef, _ := ls["env_file"].([]any)
		vrtAssert("included-long-env-file-anchored-once", len(lef) == 1 && lef[0].(map[string]any)["path"] == any(baseDir+"/l.env"))
		lv, _ := ls["volumes"].([]any)
		vrtAssert("included-long-bind-anchored-once", len(lv) == 1 && lv[0].(map[string]any)["source"] == any(baseDir+"/ldata"))
		dv, _ := ls["develop"].(map[string]any)
		lw, _ := dv["watch"].([]any)
		vrtAssert("included-watch-path-anchored-once", len(lw) == 1 && lw[0].(map[string]any)["path"] == any(baseDir+"/src"))
	}
	sec, _ := m["secrets"].(map[string]any)["incsec"].(map[string]any)
	vrtAssert("included-secret-file-anchored", sec["file"] == any(baseDir+"/sec.txt"))
	cfg, _ := m["configs"].(map[string]any)["inccfg"].(map[string]any)
	vrtAssert("included-config-file-anchored", cfg["file"] == any(baseDir+"/cfg.txt"))
	_, hasNet := m["networks"].(map[string]any)["incnet"]
	_, hasVol := m["volumes"].(map[string]any)["named"]
	vrtAssert("included-network-and-volume-present", hasNet && hasVol)
	_, hasInclude := m["include"]
	vrtAssert("no-include-left", !hasInclude)
}

// VerifC06Conflict: same resource on both sides: identical => accepted, different => error. The second
// definition comes from the parent itself, from a second included file, or from the same file listed by a
// second entry of the include section that differs in its env_file (so the file resolves differently or
// identically, as chosen).
func VerifC06Conflict() {
	root := vrtRoot()
	w := root + "/w"
	kind := []string{"volumes", "networks", "services", "secrets", "configs"}[vrtChoice("kind", 5)]
	body := func(k int) any {
		switch kind {
		case "services":
			return map[string]any{"image": []string{"i", "j", "k"}[k]}
		case "secrets", "configs":
			// the third body takes its value from the environment of the load
			return []any{map[string]any{"file": "/f"}, map[string]any{"file": "/g"}, map[string]any{"environment": "CV"}}[k]
		}
		switch k {
		case 0:
			return nil
		case 1:
			return map[string]any{"driver": "d"}
		}
		return map[string]any{"driver": "e"}
	}
	nb := 3
	ka := vrtChoice("bodyA", nb)
	kb := vrtChoice("bodyB", nb)
	route := vrtChoice("secondRoute", 3) // B arrives from the parent itself, from a second include, or from the same file listed twice
	env := types.Mapping{"CV": "from-env"}
	if route == 2 {
		// one file, two entries: the entry's env_file decides which body the file resolves to
		var tmpl any
		switch kind {
		case "services":
			tmpl = map[string]any{"image": "${SEL}"}
		case "secrets", "configs":
			tmpl = map[string]any{"file": "/${SEL}"}
		default:
			tmpl = map[string]any{"driver": "${SEL}"}
		}
		vrtAssume(ka < 2 && kb < 2)
		a := map[string]any{kind: map[string]any{"r": tmpl}}
		if kind != "services" {
			a["services"] = map[string]any{"sa": map[string]any{"image": "i"}}
		}
		vrtYamlFile(w+"/a/inc.yaml", a)
		vals := []string{"d", "e"}
		vrtFile(w+"/a/one.env", "SEL="+vals[ka]+"\n")
		vrtFile(w+"/a/two.env", "SEL="+vals[kb]+"\n")
		main := map[string]any{"services": map[string]any{"own": map[string]any{"image": "i"}},
			"include": []any{map[string]any{"path": "a/inc.yaml", "env_file": "a/one.env"}, map[string]any{"path": "a/inc.yaml", "env_file": "a/two.env"}}}
		_, err := tcLoad(env, nil, main)
		vrtObserve("err", err != nil)
		if ka == kb {
			vrtAssert("identical-redefinition-accepted", err == nil)
		} else {
			vrtAssert("different-redefinition-is-conflict", err != nil)
		}
		return
	}
	second := route == 1
	a := map[string]any{kind: map[string]any{"r": body(ka)}}
	bdoc := map[string]any{kind: map[string]any{"r": body(kb)}}
	if kind != "services" {
		a["services"] = map[string]any{"sa": map[string]any{"image": "i"}}
	}
	vrtYamlFile(w+"/a/inc.yaml", a)
	main := map[string]any{"services": map[string]any{"own": map[string]any{"image": "i"}}}
	if second {
		vrtYamlFile(w+"/b/inc.yaml", bdoc)
		main["include"] = []any{"a/inc.yaml", "b/inc.yaml"}
	} else {
		main["include"] = []any{"a/inc.yaml"}
		if kind == "services" {
			main["services"].(map[string]any)["r"] = body(kb)
		} else {
			main[kind] = map[string]any{"r": body(kb)}
		}
	}
	_, err := tcLoad(env, nil, main)
	vrtObserve("err", err != nil)
	if ka == kb {
		vrtCover("identical")
		vrtAssert("identical-redefinition-accepted", err == nil)
	} else {
		vrtCover("different")
		vrtAssert("different-redefinition-is-conflict", err != nil)
	}
}

// VerifC06Entries: two entries of one include section that share their first file but list different further
// files both take effect.
func VerifC06Entries() {
	w := vrtRoot() + "/w"
	v := "x" + vrtString("v", vrtParam("VL", 1), "ab")
	vrtYamlFile(w+"/svc/compose.yaml", map[string]any{"services": map[string]any{"app": map[string]any{"image": "i" + v}}})
	vrtYamlFile(w+"/svc/extra1.yaml", map[string]any{"services": map[string]any{"one": map[string]any{"image": "1"}}, "volumes": map[string]any{"v1": nil}})
	vrtYamlFile(w+"/svc/extra2.yaml", map[string]any{"services": map[string]any{"two": map[string]any{"image": "2"}}, "networks": map[string]any{"n2": nil}})
	var inc []any
	switch vrtChoice("entries", 3) {
	case 0:
		inc = []any{map[string]any{"path": []any{"svc/compose.yaml", "svc/extra1.yaml"}}, map[string]any{"path": []any{"svc/compose.yaml", "svc/extra2.yaml"}}}
	case 1:
		inc = []any{"svc/compose.yaml", map[string]any{"path": []any{"svc/compose.yaml", "svc/extra2.yaml"}}, map[string]any{"path": []any{"svc/compose.yaml", "svc/extra1.yaml"}}}
	case 2:
		inc = []any{map[string]any{"path": []any{"svc/compose.yaml", "svc/extra1.yaml", "svc/extra2.yaml"}}, "svc/compose.yaml"}
	}
	// the name the caller gives the main file: absolute, or relative (a display name) - the included files are named
	// compose.yaml as well
	mainName := []string{w + "/compose.yaml", "compose.yaml", "./compose.yaml"}[vrtChoice("mainFileName", 3)]
	m, err := LoadModelWithContext(context.Background(), types.ConfigDetails{WorkingDir: w, Environment: types.Mapping{},
		ConfigFiles: []types.ConfigFile{{Filename: mainName, Config: map[string]any{"include": inc, "services": map[string]any{"own": map[string]any{"image": "i"}}}}}},
		func(o *Options) { o.SetProjectName("p", true); o.ResolvePaths = true })
	vrtObserve("err", err != nil)
	vrtAssert("loads", err == nil)
	if err != nil {
		return
	}
	vrtAssert("shared-first-file-loaded", tcSvc(m, "app")["image"] == any("i"+v))
	vrtAssert("first-entry-further-file-effective", tcSvc(m, "one") != nil)
	vrtAssert("second-entry-further-file-effective", tcSvc(m, "two") != nil)
	vols, _ := m["volumes"].(map[string]any)
	nets, _ := m["networks"].(map[string]any)
	_, hv := vols["v1"]
	_, hn := nets["n2"]
	vrtAssert("resources-of-both-entries", hv && hn)
}

// VerifC06Cycle: include cycles of length 1..2 are errors; nested acyclic includes compose.
func VerifC06Cycle() {
	root := vrtRoot()
	w := root + "/w"
	shape := vrtChoice("shape", 5)
	a := map[string]any{"services": map[string]any{"sa": map[string]any{"image": "i"}}}
	b := map[string]any{"services": map[string]any{"sb": map[string]any{"image": "i"}}}
	cyc := false
	switch shape {
	case 0: // main -> a -> b
		a["include"] = []any{"../b/inc.yaml"}
	case 1: // a includes itself
		a["include"] = []any{"inc.yaml"}
		cyc = true
	case 2: // a -> b -> a, each hop written relative, absolute, or absolute but not in its shortest form
		sp := vrtChoice("spelling", 4)
		pa := []string{"../a/inc.yaml", w + "/a/inc.yaml", w + "//a/inc.yaml", w + "/b/../a/./inc.yaml"}[sp]
		pb := []string{"../b/inc.yaml", w + "/b/inc.yaml", w + "//b/inc.yaml", w + "/a/../b/./inc.yaml"}[sp]
		a["include"] = []any{pb}
		b["include"] = []any{pa}
		cyc = true
	case 3: // b includes the main file
		a["include"] = []any{"../b/inc.yaml"}
		b["include"] = []any{"../compose.yaml"}
		cyc = true
	}
	mainInclude := []any{"a/inc.yaml"}
	if shape == 4 {
		// one include entry with two paths (the second is an override of the first); the override file
		// includes the same pair again
		mainInclude = []any{map[string]any{"path": []any{"a/inc.yaml", "b/inc.yaml"}}}
		b["include"] = []any{map[string]any{"path": []any{"../a/inc.yaml", "../b/inc.yaml"}}}
		cyc = true
	}
	vrtYamlFile(w+"/a/inc.yaml", a)
	vrtYamlFile(w+"/b/inc.yaml", b)
	main := map[string]any{"include": mainInclude, "services": map[string]any{"own": map[string]any{"image": "i"}}}
	vrtYamlFile(w+"/compose.yaml", main)
	m, err := tcLoad(nil, nil, main)
	vrtObserve("err", err != nil)
	if cyc {
		vrtAssert("include-cycle-is-error", err != nil)
		return
	}
	vrtAssert("nested-include-loads", err == nil)
	if err == nil {
		vrtAssert("nested-services-present", tcSvc(m, "sa") != nil && tcSvc(m, "sb") != nil && tcSvc(m, "own") != nil)
	}
}
