package loader

import "github.com/compose-spec/compose-go/v2/types"

// C02: same inputs, same project, same rendering - whatever order the library's map
// ranges run in. Each document family is loaded under the engine's default order and again
// under another order mode (reverse / sorted ascending / sorted descending, applied to
// every map range inside the library); outcome, typed project and rendering must be equal.
// Declaration order of services is permuted as well.

func c02Doc(family int, v string) ([]map[string]any, func()) {
	w := vrtRoot() + "/w"
	setup := func() {}
	switch {
	case family < 12:
		return []map[string]any{c09Doc(family, v, 2)}, setup
	case family == 12: // multi-file merge with keyed lists, ipam, labels, env
		base := map[string]any{"services": map[string]any{
			"a": map[string]any{"image": "i", "environment": map[string]any{"K": v, "B": "1"}, "labels": []any{"l=" + v}, "ports": []any{"80", "81"}, "cap_add": []any{"X", "Y"},
				"networks": map[string]any{"n": nil, "m": nil}, "ulimits": map[string]any{"nofile": 1, "core": 2}, "depends_on": []any{"b", "c"}},
			"b": map[string]any{"image": "i"}, "c": map[string]any{"image": "i"}},
			"networks": map[string]any{"n": map[string]any{"ipam": map[string]any{"config": []any{map[string]any{"subnet": "10.0.0.0/24"}, map[string]any{"subnet": "10.1.0.0/24"}}}}, "m": nil}}
		over := map[string]any{"services": map[string]any{
			"a": map[string]any{"environment": []any{"K=o" + v, "N=2"}, "labels": map[string]any{"m": v}, "ports": []any{"81", "82"}, "cap_add": []any{"Y", "Z"},
				"depends_on": map[string]any{"c": map[string]any{"condition": "service_healthy"}, "b": map[string]any{"condition": "service_completed_successfully", "required": false}}}},
			"networks": map[string]any{"n": map[string]any{"ipam": map[string]any{"config": []any{map[string]any{"subnet": "10.1.0.0/24", "gateway": "10.1.0.1"}}}}}}
		return []map[string]any{base, over}, setup
	case family == 13: // extends: siblings sharing a base, nested keys overridden differently
		doc := map[string]any{"services": map[string]any{
			"base": map[string]any{"image": "i", "healthcheck": map[string]any{"interval": "10s", "test": []any{"CMD", "x"}}, "deploy": map[string]any{"resources": map[string]any{"limits": map[string]any{"cpus": "0.1"}}}},
			"s1":   map[string]any{"extends": "base", "healthcheck": map[string]any{"timeout": "1s"}, "deploy": map[string]any{"resources": map[string]any{"limits": map[string]any{"cpus": "0.2"}}}},
			"s2":   map[string]any{"extends": "base", "healthcheck": map[string]any{"timeout": "2s"}, "deploy": map[string]any{"resources": map[string]any{"limits": map[string]any{"cpus": "0.3"}}}},
			"s3":   map[string]any{"extends": "s2", "hostname": v}}}
		return []map[string]any{doc}, setup
	case family == 14: // services sharing env files after different first files; optional dependency on a disabled service
		setup = func() {
			vrtFile(w+"/a.env", "T=front\n")
			vrtFile(w+"/b.env", "T=back\n")
			vrtFile(w+"/common.env", "ROLE=${T}-"+v+"\n")
		}
		doc := map[string]any{"services": map[string]any{
			"web": map[string]any{"image": "i", "env_file": []any{"a.env", "common.env"}, "depends_on": map[string]any{"dbg": map[string]any{"condition": "service_started", "required": false}, "api": map[string]any{"condition": "service_started"}}},
			"api": map[string]any{"image": "i", "env_file": []any{"b.env", "common.env"}},
			"dbg": map[string]any{"image": "i", "profiles": []any{"debug"}}}}
		return []map[string]any{doc}, setup
	case family == 15: // include with two routes and resources of every kind
		setup = func() {
			vrtYamlFile(w+"/a/inc.yaml", map[string]any{"services": map[string]any{"ia": map[string]any{"image": "i", "volumes": []any{"./d:/d"}}}, "volumes": map[string]any{"shared": nil}, "networks": map[string]any{"shared": nil}})
			vrtYamlFile(w+"/b/inc.yaml", map[string]any{"services": map[string]any{"ib": map[string]any{"image": "i"}}, "volumes": map[string]any{"shared": nil}, "secrets": map[string]any{"s": map[string]any{"file": "./f" + v}}})
		}
		doc := map[string]any{"include": []any{"a/inc.yaml", "b/inc.yaml"}, "services": map[string]any{"own": map[string]any{"image": "i"}}}
		return []map[string]any{doc}, setup
	case family == 16: // two services extend the same service of another file; one is its homonym and overrides
		setup = func() {
			vrtYamlFile(w+"/common/base.yaml", map[string]any{"services": map[string]any{"web": map[string]any{"image": "base", "environment": map[string]any{"ROLE": "base"}, "healthcheck": map[string]any{"interval": "5s", "test": []any{"CMD", "x"}}}}})
		}
		ext := map[string]any{"file": "common/base.yaml", "service": "web"}
		doc := map[string]any{"services": map[string]any{
			"web":   map[string]any{"extends": ext, "environment": map[string]any{"ROLE": "front" + v}, "healthcheck": map[string]any{"timeout": "1s"}},
			"admin": map[string]any{"extends": ext, "hostname": "adm"},
			"zed":   map[string]any{"extends": ext, "environment": map[string]any{"ROLE": "zed"}}}}
		return []map[string]any{doc}, setup
	case family == 18: // many extra_hosts entries (beyond the size where sorting switches algorithm), one host with two addresses, merged
		hosts := map[string]any{"multi": []any{"10.0.0.9", "10.0.0.1"}, "again": []any{"10.0.0.7", "10.0.0.3"}, "single": []any{"10.0.0.5"}}
		for i := 0; i < 13; i++ {
			hosts["h"+string(rune('a'+i))] = "10.0.1." + string(rune('0'+i%10))
		}
		base := map[string]any{"services": map[string]any{"s": map[string]any{"image": "i", "extra_hosts": hosts}}}
		over := map[string]any{"services": map[string]any{"s": map[string]any{"extra_hosts": map[string]any{"late" + v: "10.0.2.1"}}}}
		return []map[string]any{base, over}, setup
	case family == 19: // the same mapping of hosts in a single file (no merge turns it into a list before it is decoded)
		hosts := map[string]any{"multi": []any{"10.0.0.9", "10.0.0.1"}, "again": []any{"10.0.0.7", "10.0.0.3"}, "single": []any{"10.0.0.5"}, "plain" + v: "10.0.0.6"}
		return []map[string]any{{"services": map[string]any{"s": map[string]any{"image": "i", "extra_hosts": hosts}, "t": map[string]any{"image": "i", "extra_hosts": map[string]any{"multi": []any{"10.9.9.9", "10.9.9.1"}}}}}}, setup
	case family == 20: // nothing but the obsolete version key (with a symbolic value): the same outcome every time
		return []map[string]any{{"version": "3." + v}}, setup
	case family == 17: // default network: one explicit reference, the others implicit
		doc := map[string]any{"services": map[string]any{
			"a": map[string]any{"image": "i", "networks": []any{"default", "edge"}},
			"b": map[string]any{"image": "i"},
			"c": map[string]any{"image": "i", "hostname": v},
			"z": map[string]any{"image": "i"}},
			"networks": map[string]any{"edge": nil}}
		return []map[string]any{doc}, setup
	}
	return nil, setup
}

func c02Permute(doc map[string]any) map[string]any {
	// same document with services (and top-level sections) declared in the opposite order
	out := map[string]any{}
	var keys []string
	for k := range doc {
		keys = append(keys, k)
	}
	for i := len(keys) - 1; i >= 0; i-- {
		v := doc[keys[i]]
		if keys[i] == "services" {
			sm := v.(map[string]any)
			var sk []string
			for k := range sm {
				sk = append(sk, k)
			}
			ns := map[string]any{}
			for j := len(sk) - 1; j >= 0; j-- {
				ns[sk[j]] = sm[sk[j]]
			}
			v = ns
		}
		out[keys[i]] = v
	}
	return out
}

func VerifC02Determinism() {
	family := vrtParam("ONLYFAMILY", -1)
	if family < 0 {
		family = vrtChoice("family", 21)
	}
	v := "x" + vrtString("v", vrtParam("VL", 1), "ab")
	mode := []int{1, 3, 4}[vrtChoice("order", 3)]
	permute := vrtChoice("permuteDeclaration", 2) == 1
	build := func() []map[string]any {
		docs, setup := c02Doc(family, v)
		setup()
		return docs
	}
	env := types.Mapping{"E": v}
	d1 := build()
	p1, e1 := tcLoadProject(env, nil, d1...)
	var y1 map[string]any
	if e1 == nil {
		b, err := p1.MarshalYAML()
		vrtAssert("renders", err == nil)
		y1, _ = vrtDecodeRendered(b, false)
	}
	d2 := build()
	if permute {
		for i := range d2 {
			d2[i] = c02Permute(d2[i])
		}
	}
	vrtMapOrder(mode)
	p2, e2 := tcLoadProject(env, nil, d2...)
	var y2 map[string]any
	if e2 == nil {
		b, err := p2.MarshalYAML()
		vrtAssert("renders-again", err == nil)
		y2, _ = vrtDecodeRendered(b, false)
	}
	vrtMapOrder(0)
	vrtObserve("err", e1 != nil)
	vrtAssert("same-outcome", (e1 != nil) == (e2 != nil))
	if e1 != nil || e2 != nil {
		return
	}
	cls := "f" + string(rune('a'+family))
	vrtAssert("same-services#"+cls, vrtDeepEqual(any(p1.Services), any(p2.Services)))
	vrtAssert("same-disabled-services#"+cls, vrtDeepEqual(any(p1.DisabledServices), any(p2.DisabledServices)))
	vrtAssert("same-resources#"+cls, vrtDeepEqual(any(p1.Networks), any(p2.Networks)) && vrtDeepEqual(any(p1.Volumes), any(p2.Volumes)) &&
		vrtDeepEqual(any(p1.Secrets), any(p2.Secrets)) && vrtDeepEqual(any(p1.Configs), any(p2.Configs)))
	vrtAssert("same-rendering#"+cls, vrtDeepEqual(any(y1), any(y2)))
}

type c02Magic struct {
	Foo   string `yaml:"foo,omitempty" json:"foo,omitempty"`
	Extra string `yaml:"extra,omitempty" json:"extra,omitempty"`
}

// VerifC02KnownExtension: a known extension registered once (by value or by pointer) and used by several
// services and by several loads decodes, each time, to that occurrence's own content.
func VerifC02KnownExtension() {
	byPointer := vrtChoice("registeredByPointer", 2) == 1
	known := map[string]any{"x-magic": c02Magic{}}
	if byPointer {
		known = map[string]any{"x-magic": &c02Magic{}}
	}
	foo := func(p *types.Project, svc string) (string, string, bool) {
		switch m := p.Services[svc].Extensions["x-magic"].(type) {
		case c02Magic:
			return m.Foo, m.Extra, true
		case *c02Magic:
			if m != nil {
				return m.Foo, m.Extra, true
			}
		}
		return "", "", false
	}
	opts := func(o *Options) { o.KnownExtensions = known }
	if vrtChoice("earlierLoad", 2) == 1 {
		// another model loaded before with the same registration
		tcLoadProject(types.Mapping{}, opts, map[string]any{"services": map[string]any{"o": map[string]any{"image": "i", "x-magic": map[string]any{"foo": "other", "extra": "only-other"}}}}) //nolint:errcheck
	}
	vrtMapOrder([]int{0, 3, 4}[vrtChoice("maporder", 3)])
	p, err := tcLoadProject(types.Mapping{}, opts, map[string]any{"services": map[string]any{
		"a": map[string]any{"image": "i", "x-magic": map[string]any{"foo": "fa"}},
		"b": map[string]any{"image": "i", "x-magic": map[string]any{"foo": "fb", "extra": "eb"}},
	}})
	vrtMapOrder(0)
	vrtObserve("err", err != nil)
	vrtAssert("loads", err == nil)
	if err != nil {
		return
	}
	fa, ea, oka := foo(p, "a")
	fb, eb, okb := foo(p, "b")
	vrtAssert("known-extension-decoded", oka && okb)
	vrtAssert("each-occurrence-its-own-content", fa == "fa" && ea == "" && fb == "fb" && eb == "eb")
}
