package loader

// C01 over mutations of valid documents: a schema-driven example document (gen_examples.go)
// gets one node - anywhere in the document, sections and resources included - replaced by a
// node of another kind; the document is loaded directly, as a main file that includes another
// file, or as the included file, with and without schema validation. Whatever the outcome it
// must be a project or an error, never a panic (the engine reports panics, stack exhaustion
// and exhausted instruction budgets on its own).

type c01Pos struct {
	parent any // map[string]any or []any
	key    string
	idx    int
}

// c01Positions lists the nodes of a tree in a fixed order (sorted keys), the root excluded.
func c01Positions(v any, out *[]c01Pos, max int) {
	switch x := v.(type) {
	case map[string]any:
		for _, k := range genSorted(x) {
			if len(*out) >= max {
				return
			}
			*out = append(*out, c01Pos{parent: x, key: k})
			c01Positions(x[k], out, max)
		}
	case []any:
		for i := range x {
			if len(*out) >= max {
				return
			}
			*out = append(*out, c01Pos{parent: x, idx: i})
			c01Positions(x[i], out, max)
		}
	}
}

func c01MutKinds() []any {
	all := []any{nil, 1, "x", map[string]any{}, true, []any{}, []any{"x"}, []any{map[string]any{}}, map[string]any{"k": "x"}, []any{nil}, 1.5}
	n := vrtParam("KINDS", len(all))
	if n > len(all) {
		n = len(all)
	}
	return all[:n]
}

func VerifC01GenMutate() {
	site, attr, value, _ := genPick("v1", "10", "1s")
	genFiles()
	doc := genDoc(site, attr, value)
	// positions inside the attribute under test first, then the rest of the document
	var pos []c01Pos
	var holder map[string]any
	if site.section == "services" {
		holder = doc["services"].(map[string]any)[genSvc].(map[string]any)
	} else {
		holder = doc[site.section].(map[string]any)[genRes].(map[string]any)
	}
	pos = append(pos, c01Pos{parent: holder, key: attr})
	c01Positions(holder[attr], &pos, vrtParam("POS", 10))
	if vrtParam("WHOLE", 0) == 1 {
		pos = pos[:0]
		c01Positions(doc, &pos, 40)
	}
	p := pos[vrtChoice("position", len(pos))]
	kinds := c01MutKinds()
	k := kinds[vrtChoice("kind", len(kinds))]
	switch parent := p.parent.(type) {
	case map[string]any:
		parent[p.key] = k
	case []any:
		parent[p.idx] = k
	}
	skipValidation := vrtParam("OPTS", 0) == 1 && vrtChoice("skipValidation", 2) == 1
	opts := func(o *Options) {
		o.SkipValidation = skipValidation
	}
	var m map[string]any
	var err error
	switch vrtChoice("via", vrtParam("VIA", 4)) {
	case 3: // the mutated document is the file a service of the main file extends (loaded without schema validation)
		vrtYamlFile(vrtRoot()+"/w/other/base.yaml", doc)
		m, err = c01Load(opts, map[string]any{"services": map[string]any{"web": map[string]any{"extends": map[string]any{"file": "other/base.yaml", "service": genSvc}}}})
	case 0:
		m, err = c01Load(opts, doc)
	case 1: // the mutated document is a main file that also includes a valid file
		vrtYamlFile(vrtRoot()+"/w/inc.yaml", map[string]any{"services": map[string]any{"inc": map[string]any{"image": "i"}}, "volumes": map[string]any{"iv": nil}})
		doc["include"] = []any{"inc.yaml"}
		m, err = c01Load(opts, doc)
	case 2: // the mutated document is the included file
		vrtYamlFile(vrtRoot()+"/w/inc.yaml", doc)
		m, err = c01Load(opts, map[string]any{"include": []any{"inc.yaml"}, "services": map[string]any{"own": map[string]any{"image": "i"}}})
	}
	c01Outcome(m, err)
}
