package loader

import (
	"context"

	"github.com/compose-spec/compose-go/v2/types"
)

// tcLoadProject runs the real loader to a typed project (binder = engine model, see TRUSTED.md).
func tcLoadProject(env types.Mapping, opts func(*Options), docs ...map[string]any) (*types.Project, error) {
	tcPrelude(docs)
	docs = tcRoute(docs)
	var files []types.ConfigFile
	names := []string{vrtRoot() + "/w/compose.yaml", vrtRoot() + "/w/override.yaml", vrtRoot() + "/w/third.yaml"}
	for i, d := range docs {
		files = append(files, types.ConfigFile{Filename: names[i], Config: d})
	}
	return LoadWithContext(context.Background(), types.ConfigDetails{
		WorkingDir:  vrtRoot() + "/w",
		ConfigFiles: files,
		Environment: env,
	}, func(o *Options) {
		o.SetProjectName("p", true)
		if opts != nil {
			opts(o)
		}
	})
}
