package loader

import (
	"github.com/compose-spec/compose-go/v2/tree"
	"gopkg.in/yaml.v3"
)

// C01 (YAML aliases): resolveReset / checkForCycle on harness-built yaml.Node graphs.
// Every graph with an alias cycle must be refused with an error (and must terminate);
// alias DAGs are accepted. The engine reports instruction/call-depth budget exhaustion
// as hang/stack candidates which are confirmed natively under a timeout.
func VerifC01AliasCycle() {
	keys := []string{"a", "<<", "x-a", "services"}
	scalar := func(v string) *yaml.Node { return &yaml.Node{Kind: yaml.ScalarNode, Tag: "!!str", Value: v} }
	m0 := &yaml.Node{Kind: yaml.MappingNode, Tag: "!!map", Anchor: "r"}
	m1 := &yaml.Node{Kind: yaml.MappingNode, Tag: "!!map", Anchor: "c"}
	pick := func(tag string) (*yaml.Node, int) {
		k := vrtChoice(tag, 3)
		switch k {
		case 1:
			return &yaml.Node{Kind: yaml.AliasNode, Alias: m1, Value: "c"}, 1
		case 2:
			return &yaml.Node{Kind: yaml.AliasNode, Alias: m0, Value: "r"}, 2
		}
		return scalar("v"), 0
	}
	k1 := keys[vrtChoice("k1", len(keys))]
	k2 := keys[vrtChoice("k2", len(keys))]
	k3 := keys[vrtChoice("k3", len(keys))]
	vrtAssume(k1 != k2)
	v3, t3 := pick("v3")
	v2, t2 := pick("v2")
	m1.Content = []*yaml.Node{scalar(k3), v3}
	m0.Content = []*yaml.Node{scalar(k1), m1, scalar(k2), v2}
	cyclic := t3 != 0 || t2 == 2
	p := &ResetProcessor{visitedNodes: map[*yaml.Node][]string{}}
	_, err := p.resolveReset(m0, tree.NewPath())
	vrtObserve("err", err != nil)
	if cyclic {
		vrtCover("cyclic")
		vrtAssert("alias-cycle-is-error", err != nil)
	} else {
		vrtCover("acyclic")
		vrtAssert("alias-dag-accepted", err == nil)
	}
}
