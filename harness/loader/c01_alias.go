package loader

import (
	"github.com/compose-spec/compose-go/v2/tree"
	"github.com/compose-spec/compose-go/v2/types"
	"gopkg.in/yaml.v3"
)

// C01 (YAML aliases): resolveReset / checkForCycle on harness-built yaml.Node graphs.
// Every graph with an alias cycle must be refused with an error (and must terminate);
// alias DAGs are accepted. The engine reports instruction/call-depth budget exhaustion
// as hang/stack candidates which are confirmed natively under a timeout.
func VerifC01AliasCycle() {
	// ordinary keys, the merge key, and keys that merely contain its two characters
	keys := []string{"a", "<<", "x-a", "services", "x-<<", "b<<"}
	scalar := func(v string) *yaml.Node { return &yaml.Node{Kind: yaml.ScalarNode, Tag: "!!str", Value: v} }
	m0 := &yaml.Node{Kind: yaml.MappingNode, Tag: "!!map", Anchor: "r"}
	m1 := &yaml.Node{Kind: yaml.MappingNode, Tag: "!!map", Anchor: "c"}
	// the inner collection is a mapping, a sequence holding its item directly, or a sequence holding a mapping
	innerKind := vrtChoice("innerCollection", 3)
	pick := func(tag string) (*yaml.Node, int) {
		k := vrtChoice(tag, 3)
		switch k {
		case 1:
			return &yaml.Node{Kind: yaml.AliasNode, Alias: m1, Value: "c"}, 1
		case 2:
			return &yaml.Node{Kind: yaml.AliasNode, Alias: m0, Value: "r"}, 2
		}
		return scalar("v"), 0
	}
	k1 := keys[vrtChoice("k1", len(keys))]
	k2 := keys[vrtChoice("k2", len(keys))]
	k3 := keys[vrtChoice("k3", len(keys))]
	vrtAssume(k1 != k2)
	v3, t3 := pick("v3")
	v2, t2 := pick("v2")
	switch innerKind {
	case 0:
		m1.Content = []*yaml.Node{scalar(k3), v3}
	case 1:
		m1.Kind, m1.Tag = yaml.SequenceNode, "!!seq"
		m1.Content = []*yaml.Node{v3}
	case 2:
		m1.Kind, m1.Tag = yaml.SequenceNode, "!!seq"
		m1.Content = []*yaml.Node{{Kind: yaml.MappingNode, Tag: "!!map", Content: []*yaml.Node{scalar(k3), v3}}}
	}
	m0.Content = []*yaml.Node{scalar(k1), m1, scalar(k2), v2}
	cyclic := t3 != 0 || t2 == 2
	p := &ResetProcessor{visitedNodes: map[*yaml.Node][]string{}}
	_, err := p.resolveReset(m0, tree.NewPath())
	vrtObserve("err", err != nil)
	if cyclic {
		vrtCover("cyclic")
		vrtAssert("alias-cycle-is-error", err != nil)
	} else {
		vrtCover("acyclic")
		vrtAssert("alias-dag-accepted", err == nil)
	}
}

// VerifC01Tags: `!reset` / `!override` wherever YAML allows a tag - on the document root, on a section, on a
// service, on scalars, sequences and mappings, in the only file or in an override - give a project or an error.
func VerifC01Tags() {
	w := vrtRoot() + "/w"
	tag := []string{"!reset", "!override"}[vrtChoice("tag", 2)]
	where := vrtChoice("where", 7)
	svc := nMap(nStr("image"), nStr("i"), nStr("command"), nSeq(nStr("x")), nStr("labels"), nMap(nStr("k"), nStr("v")))
	services := nMap(nStr("s"), svc)
	volumes := nMap(nStr("v"), nMap())
	root := nMap(nStr("services"), services, nStr("volumes"), volumes)
	switch where {
	case 0:
		root.Tag = tag
	case 1:
		services.Tag = tag
	case 2:
		svc.Tag = tag
	case 3:
		svc.Content[1].Tag = tag // a scalar
	case 4:
		svc.Content[3].Tag = tag // a sequence
	case 5:
		svc.Content[5].Tag = tag // a mapping
	case 6:
		volumes.Tag = tag
	}
	asOverride := vrtChoice("asOverride", 2) == 1
	var m map[string]any
	var err error
	if asOverride {
		vrtYamlFile(w+"/compose.yaml", map[string]any{"services": map[string]any{"s": map[string]any{"image": "base", "command": []any{"b"}}}, "volumes": map[string]any{"v": nil}})
		vrtYamlNodeFile(w+"/override.yaml", root)
		m, err = tcLoadFiles(types.Mapping{}, w+"/compose.yaml", w+"/override.yaml")
	} else {
		vrtYamlNodeFile(w+"/compose.yaml", root)
		m, err = tcLoadFiles(types.Mapping{}, w+"/compose.yaml")
	}
	c01Outcome(m, err)
}
