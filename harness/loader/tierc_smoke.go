package loader

import "github.com/compose-spec/compose-go/v2/types"

func VerifTierCSmoke() {
	v := vrtString("val", 2, "ab")
	doc := map[string]any{
		"services": map[string]any{
			"a": map[string]any{
				"image":       "i",
				"environment": []any{"A=" + v, "C"},
				"ports":       []any{"8080:80"},
				"volumes":     []any{"./x:/y:ro"},
				"depends_on":  []any{"b"},
				"build":       "./ctx",
			},
			"b": map[string]any{"image": "j", "extends": "a"},
		},
	}
	over := map[string]any{
		"services": map[string]any{
			"a": map[string]any{
				"environment": map[string]any{"A": "z"},
				"labels":      []any{"l=1"},
			},
		},
	}
	m, err := tcLoad(types.Mapping{"C": "cv"}, nil, doc, over)
	vrtObserve("err", err != nil)
	if err != nil {
		vrtObserve("msg", err.Error())
	}
	vrtObserve("model", m)
}
