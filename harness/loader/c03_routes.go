package loader

// C03 along every route a spelling can take into the model: a short form and its documented long
// form stay interchangeable when the attribute is refined by a second file, when it arrives in the
// second file on top of a long-form base, and when it is inherited through `extends` (same file or
// another file). The refinement is the same on both sides, so the check needs no knowledge of the
// merge result: only that it does not depend on the spelling.
func c03Spelling(which int, a, b string) (attr string, short, long, refinement any, extra map[string]any) {
	extra = map[string]any{}
	switch which {
	case 0:
		attr = "devices"
		short = []any{"/dev/" + a + ":/dev/" + a + ":rw", "/dev/" + b}
		long = []any{map[string]any{"source": "/dev/" + a, "target": "/dev/" + a, "permissions": "rw"}, map[string]any{"source": "/dev/" + b, "target": "/dev/" + b, "permissions": "rwm"}}
		refinement = []any{map[string]any{"source": "/dev/z", "target": "/dev/z", "permissions": "r"}}
	case 1:
		attr = "volumes"
		short = []any{"/" + a + ":/t1:ro", "vol:/t2"}
		long = []any{map[string]any{"type": "bind", "source": "/" + a, "target": "/t1", "read_only": true, "bind": map[string]any{"create_host_path": true}},
			map[string]any{"type": "volume", "source": "vol", "target": "/t2", "volume": map[string]any{}}}
		refinement = []any{map[string]any{"type": "bind", "source": "/z", "target": "/t3"}}
		extra["volumes"] = map[string]any{"vol": nil}
	case 2:
		attr = "secrets"
		short = []any{"sa", "sb"}
		long = []any{map[string]any{"source": "sa"}, map[string]any{"source": "sb"}}
		refinement = []any{map[string]any{"source": "sa", "target": "elsewhere"}}
		extra["secrets"] = map[string]any{"sa": map[string]any{"file": "/f" + a}, "sb": map[string]any{"file": "/f" + b}}
	case 3:
		attr = "env_file"
		short = []any{"/e/one.env", "/e/two.env"}
		long = []any{map[string]any{"path": "/e/one.env", "required": true}, map[string]any{"path": "/e/two.env", "required": true}}
		refinement = []any{map[string]any{"path": "/e/z", "required": false}}
	case 4:
		attr = "depends_on"
		short = []any{"d1", "d2"}
		long = map[string]any{"d1": map[string]any{"condition": "service_started", "required": true}, "d2": map[string]any{"condition": "service_started", "required": true}}
		refinement = map[string]any{"d2": map[string]any{"condition": "service_healthy"}}
	case 5:
		attr = "build"
		short = "/ctx/" + a
		long = map[string]any{"context": "/ctx/" + a}
		refinement = map[string]any{"args": map[string]any{"A": "1"}, "target": "t" + b, "dockerfile": "Dockerfile.prod"}
	case 6:
		attr = "environment"
		short = []any{"A=" + a, "EMPTY="}
		long = map[string]any{"A": a, "EMPTY": ""}
		refinement = map[string]any{"Z": "z"}
	case 7:
		attr = "networks"
		short = []any{"n1", "n2"}
		long = map[string]any{"n1": nil, "n2": nil}
		refinement = map[string]any{"n1": map[string]any{"aliases": []any{"al" + b}}}
		extra["networks"] = map[string]any{"n1": nil, "n2": nil}
	case 8:
		attr = "ports"
		short = []any{"8080:80", 90}
		long = []any{map[string]any{"target": 80, "published": "8080", "protocol": "tcp", "mode": "ingress"}, map[string]any{"target": 90, "protocol": "tcp", "mode": "ingress"}}
		refinement = []any{map[string]any{"target": 91, "protocol": "udp", "mode": "host"}}
	case 9:
		attr = "tmpfs"
		short = "/run/" + a
		long = []any{"/run/" + a}
		refinement = []any{"/tmp/z"}
	case 10:
		attr = "labels"
		// one key starts like an extension key: in a mapping of labels it is a label like any other
		short = []any{"k=" + a, "bare", "x-l=" + b}
		long = map[string]any{"k": a, "bare": "", "x-l": b}
		refinement = map[string]any{"z": "z"}
	case 11:
		attr = "extra_hosts"
		short = []any{"ha=10.0.0.1", "hb:10.0.0.2", "x-h=10.0.0.4", "h6=[::1]"}
		long = map[string]any{"ha": "10.0.0.1", "hb": "10.0.0.2", "x-h": "10.0.0.4", "h6": "[::1]"}
		refinement = map[string]any{"hz": "10.0.0.3"}
	case 12:
		attr = "sysctls"
		short = []any{"net.core.somaxconn=" + a, "x-s=1"}
		long = map[string]any{"net.core.somaxconn": a, "x-s": "1"}
		refinement = map[string]any{"z": "z"}
	case 13:
		attr = "annotations"
		short = []any{"k=" + a, "x-a=" + b}
		long = map[string]any{"k": a, "x-a": b}
		refinement = map[string]any{"z": "z"}
	}
	return
}

func VerifC03Routes() {
	which := vrtChoice("attr", 14)
	route := vrtChoice("route", 5) // 0 one file, 1 refined by a second file, 2 arrives in the second file, 3 inherited (same file), 4 inherited (other file)
	a := "x" + vrtString("a", vrtParam("VL", 1), "ab")
	b := "y" + vrtString("b", vrtParam("VL", 1), "ab")
	w := vrtRoot() + "/w"
	vrtFile("/e/one.env", "ONE="+a+"\n")
	vrtFile("/e/two.env", "TWO=2\n")
	load := func(spellLong bool) (any, error) {
		attr, short, long, refinement, extra := c03Spelling(which, a, b)
		v := short
		if spellLong {
			v = long
		}
		others := func(d map[string]any) map[string]any {
			svcs := d["services"].(map[string]any)
			svcs["d1"] = map[string]any{"image": "i"}
			svcs["d2"] = map[string]any{"image": "i"}
			for k, e := range extra {
				d[k] = e
			}
			return d
		}
		var docs []map[string]any
		switch route {
		case 0:
			docs = []map[string]any{others(map[string]any{"services": map[string]any{"s": map[string]any{"image": "i", attr: v}}})}
		case 1:
			docs = []map[string]any{others(map[string]any{"services": map[string]any{"s": map[string]any{"image": "i", attr: v}}}),
				{"services": map[string]any{"s": map[string]any{attr: refinement}}}}
		case 2:
			docs = []map[string]any{others(map[string]any{"services": map[string]any{"s": map[string]any{"image": "i", attr: refinement}}}),
				{"services": map[string]any{"s": map[string]any{attr: v}}}}
		case 3:
			docs = []map[string]any{others(map[string]any{"services": map[string]any{
				"b": map[string]any{"image": "i", attr: v},
				"s": map[string]any{"extends": map[string]any{"service": "b"}, attr: refinement}}})}
		case 4:
			vrtYamlFile(w+"/base.yaml", map[string]any{"services": map[string]any{"b": map[string]any{"image": "i", attr: v}}})
			docs = []map[string]any{others(map[string]any{"services": map[string]any{
				"s": map[string]any{"extends": map[string]any{"file": "base.yaml", "service": "b"}, attr: refinement}}})}
		}
		p, err := tcLoadProject(nil, nil, docs...)
		if err != nil {
			return nil, err
		}
		// the typed service: the same whatever the spelling
		return p.Services["s"], nil
	}
	vs, es := load(false)
	vl, el := load(true)
	vrtObserve("errs", es != nil)
	vrtObserve("errl", el != nil)
	vrtAssert("both-load", es == nil && el == nil)
	if es != nil || el != nil {
		return
	}
	vrtObserve("short", vs)
	cls := "r" + string(rune('0'+route))
	vrtAssert("short-equals-long#"+cls, vrtDeepEqual(vs, vl))
}

// VerifC03Numbers: attributes that take a number or the string spelling of that number give the same
// outcome for both, at the edges of the accepted range as well as inside it.
func VerifC03Numbers() {
	attr := []string{"ports", "expose", "mem_limit", "shm_size", "ulimits"}[vrtChoice("attr", 5)]
	ns := []int{-1, 0, 1, 80, 65535, 65536, 70000, 4294967376}
	i := vrtChoice("n", len(ns))
	n := ns[i]
	str := []string{"-1", "0", "1", "80", "65535", "65536", "70000", "4294967376"}[i]
	mk := func(num bool) map[string]any {
		var v any = str
		if num {
			v = n
		}
		switch attr {
		case "ports", "expose":
			v = []any{v, 81}
		case "ulimits":
			if !num {
				// the string spelling of a ulimit is not documented: compare single value and soft/hard pair instead
				v = map[string]any{"nofile": map[string]any{"soft": n, "hard": n}}
			} else {
				v = map[string]any{"nofile": n}
			}
		}
		return map[string]any{"services": map[string]any{"s": map[string]any{"image": "i", attr: v}}}
	}
	p1, e1 := tcLoadProject(nil, nil, mk(true))
	p2, e2 := tcLoadProject(nil, nil, mk(false))
	vrtObserve("err", e1 != nil)
	vrtAssert("number-and-string-same-outcome", (e1 != nil) == (e2 != nil))
	if e1 != nil || e2 != nil {
		return
	}
	s1, s2 := p1.Services["s"], p2.Services["s"]
	if attr == "ulimits" {
		u1, u2 := s1.Ulimits["nofile"], s2.Ulimits["nofile"]
		vrtAssert("single-equals-pair", u1 != nil && u2 != nil && ((u1.Single == n && u2.Soft == n && u2.Hard == n) || vrtDeepEqual(any(u1), any(u2))))
		return
	}
	vrtAssert("number-equals-string", vrtDeepEqual(any(s1), any(s2)))
}
