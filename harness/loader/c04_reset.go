package loader

import (
	"context"

	"github.com/compose-spec/compose-go/v2/types"
	"gopkg.in/yaml.v3"
)

// C04 (!reset / !override / several documents in one file): files are given by name; the
// override file is a yaml.Node tree carrying the tags, handed by the YAML stub to the real
// ResetProcessor.UnmarshalYAML / resolveReset / Apply.

func nStr(s string) *yaml.Node { return &yaml.Node{Kind: yaml.ScalarNode, Tag: "!!str", Value: s} }
func nMap(kv ...*yaml.Node) *yaml.Node {
	return &yaml.Node{Kind: yaml.MappingNode, Tag: "!!map", Content: kv}
}
func nSeq(items ...*yaml.Node) *yaml.Node {
	return &yaml.Node{Kind: yaml.SequenceNode, Tag: "!!seq", Content: items}
}

func c04Int(x any) int {
	switch v := x.(type) {
	case int:
		return v
	case uint32:
		return int(v)
	case int64:
		return int(v)
	case uint64:
		return int(v)
	}
	return -1
}

func tcLoadFiles(env types.Mapping, names ...string) (map[string]any, error) {
	var files []types.ConfigFile
	for _, n := range names {
		files = append(files, types.ConfigFile{Filename: n})
	}
	return LoadModelWithContext(context.Background(), types.ConfigDetails{
		WorkingDir: vrtRoot() + "/w", ConfigFiles: files, Environment: env,
	}, func(o *Options) {
		o.SetProjectName("p", true)
		o.ResolvePaths = true
	})
}

func VerifC04Reset() {
	w := vrtRoot() + "/w"
	v := "x" + vrtString("v", vrtParam("VL", 1), "ab")
	attr := []string{"command", "environment", "ports", "hostname", "labels", "dotted-label"}[vrtChoice("attr", 6)]
	svcName := []string{"s", "web.api"}[vrtChoice("serviceName", 2)]
	tag := []string{"!reset", "!override"}[vrtChoice("tag", 2)]
	base := map[string]any{"services": map[string]any{svcName: map[string]any{
		"image": "i", "command": []any{"base", v}, "environment": map[string]any{"B": v, "K": "base"}, "ports": []any{"8080:80"},
		"hostname": "h" + v, "labels": map[string]any{"b": v, "com.example.x": "dotted"}, "user": "keep",
		// neighbours: attributes whose names start with the name of a tagged one, and a second tagged attribute
		"dns": []any{"1.1.1.1"}, "dns_search": []any{"a.example"}, "dns_opt": []any{"o" + v}}}}
	// a second service, whose name starts with the first one's, carries the same attributes and is never tagged
	base["services"].(map[string]any)[svcName+"2"] = map[string]any{"image": "i2", "command": []any{"two", v}, "dns": []any{"2.2.2.2"}, "labels": map[string]any{"com.example.x": "two"}}
	second := vrtChoice("secondTagged", 3) // 0 none, 1 `dns: !reset`, 2 `dns: !override [...]`
	vrtYamlFile(w+"/compose.yaml", base)
	var val *yaml.Node
	switch attr {
	case "command":
		val = nSeq(nStr("over"))
	case "environment":
		val = nMap(nStr("N"), nStr("2"))
	case "ports":
		val = nSeq(nStr("9090:90"))
	case "hostname":
		val = nStr("o" + v)
	case "labels":
		val = nMap(nStr("n"), nStr(v))
	case "dotted-label":
		// the tag sits on a key that contains dots, below `labels`
		val = nStr("o" + v)
	}
	if tag == "!reset" && attr != "hostname" {
		// `attr: !reset null` and `attr: !reset [...]` both remove the attribute
		if vrtChoice("resetNull", 2) == 1 {
			val = &yaml.Node{Kind: yaml.ScalarNode, Value: "null"}
		}
	}
	val.Tag = tag
	var body *yaml.Node
	if attr == "dotted-label" {
		body = nMap(nStr("labels"), nMap(nStr("com.example.x"), val), nStr("working_dir"), nStr("/w"+v))
	} else {
		body = nMap(nStr(attr), val, nStr("working_dir"), nStr("/w"+v))
	}
	switch second {
	case 1:
		body.Content = append([]*yaml.Node{nStr("dns"), {Kind: yaml.ScalarNode, Value: "null", Tag: "!reset"}}, body.Content...)
	case 2:
		d := nSeq(nStr("9.9.9.9"))
		d.Tag = "!override"
		body.Content = append(body.Content, nStr("dns"), d)
	}
	over := nMap(nStr("services"), nMap(nStr(svcName), body))
	vrtYamlNodeFile(w+"/override.yaml", over)
	if vrtParam("MAPORDER", 0) == 1 {
		// C02: the result does not depend on the order in which the library's map ranges run
		vrtMapOrder([]int{0, 3, 4}[vrtChoice("maporder", 3)])
	}
	m, err := tcLoadFiles(nil, w+"/compose.yaml", w+"/override.yaml")
	vrtMapOrder(0)
	vrtObserve("err", err != nil)
	vrtAssert("loads", err == nil)
	if err != nil {
		vrtObserve("msg", err.Error())
		return
	}
	s := tcSvc(m, svcName)
	vrtObserve("attr", s[attr])
	vrtAssert("unmentioned-preserved", s["user"] == any("keep") && s["image"] == any("i"))
	vrtAssert("other-override-attribute-applied", s["working_dir"] == any("/w"+v))
	{
		ds, _ := c04Strs(s["dns_search"])
		do, _ := c04Strs(s["dns_opt"])
		vrtAssert("attributes-with-longer-names-untouched", len(ds) == 1 && ds[0] == "a.example" && len(do) == 1 && do[0] == "o"+v)
		d, _ := c04Strs(s["dns"])
		switch second {
		case 0:
			vrtAssert("untagged-attribute-untouched", len(d) == 1 && d[0] == "1.1.1.1")
		case 1:
			_, has := s["dns"]
			vrtAssert("second-reset-removes-attribute", !has)
		case 2:
			vrtAssert("second-override-replaces", len(d) == 1 && d[0] == "9.9.9.9")
		}
		o := tcSvc(m, svcName+"2")
		oc, _ := c04Strs(o["command"])
		od, _ := c04Strs(o["dns"])
		ol, _ := c04KV(o["labels"])
		vrtAssert("other-service-untouched", o["image"] == any("i2") && len(oc) == 2 && oc[0] == "two" && len(od) == 1 && od[0] == "2.2.2.2" && ol["com.example.x"] == "two")
	}
	if attr == "dotted-label" {
		kv, _ := c04KV(s["labels"])
		vrtAssert("sibling-label-kept", kv["b"] == v)
		if tag == "!reset" {
			_, has := kv["com.example.x"]
			vrtAssert("reset-removes-dotted-key", !has)
		} else {
			vrtAssert("override-replaces-dotted-key", kv["com.example.x"] == "o"+v)
		}
		return
	}
	if tag == "!reset" {
		_, has := s[attr]
		vrtAssert("reset-removes-attribute", !has)
		return
	}
	switch attr {
	case "command":
		l, _ := c04Strs(s["command"])
		vrtAssert("override-replaces-sequence", len(l) == 1 && l[0] == "over")
	case "environment":
		kv, _ := c04KV(s["environment"])
		vrtAssert("override-replaces-mapping", len(kv) == 1 && kv["N"] == "2")
	case "ports":
		l, _ := s["ports"].([]any)
		vrtAssert("override-replaces-ports", len(l) == 1 && c04Int(l[0].(map[string]any)["target"]) == 90)
	case "hostname":
		vrtAssert("override-replaces-scalar", s["hostname"] == any("o"+v))
	case "labels":
		kv, _ := c04KV(s["labels"])
		vrtAssert("override-replaces-labels", len(kv) == 1 && kv["n"] == v)
	}
}

// VerifC04MultiDoc: several `---` documents in one file are applied one after the other.
func VerifC04MultiDoc() {
	w := vrtRoot() + "/w"
	v := "x" + vrtString("v", vrtParam("VL", 1), "ab")
	svc := func(kv ...*yaml.Node) *yaml.Node { return nMap(nStr("services"), nMap(nStr("s"), nMap(kv...))) }
	d1 := svc(nStr("image"), nStr("i"), nStr("ports"), nSeq(nStr("8080:80")), nStr("environment"), nMap(nStr("A"), nStr(v)), nStr("cap_add"), nSeq(nStr("X")))
	tagged := vrtChoice("middleTagged", 3) // 0 plain, 1 !override, 2 !reset
	p2 := nSeq(nStr("9090:90"))
	e2 := nMap(nStr("B"), nStr("2"))
	switch tagged {
	case 1:
		p2.Tag = "!override"
		e2.Tag = "!override"
	case 2:
		p2.Tag = "!reset"
		e2.Tag = "!reset"
	}
	d2 := svc(nStr("ports"), p2, nStr("environment"), e2)
	d3 := svc(nStr("ports"), nSeq(nStr("9191:91")), nStr("environment"), nMap(nStr("C"), nStr("3")), nStr("cap_add"), nSeq(nStr("Y")))
	docs := []*yaml.Node{d1, d2, d3}
	if vrtChoice("fourDocs", 2) == 1 {
		docs = append(docs, svc(nStr("cap_add"), nSeq(nStr("Z"))))
	}
	vrtYamlNodeFile(w+"/compose.yaml", docs...)
	m, err := tcLoadFiles(nil, w+"/compose.yaml")
	vrtObserve("err", err != nil)
	vrtAssert("loads", err == nil)
	if err != nil {
		vrtObserve("msg", err.Error())
		return
	}
	s := tcSvc(m, "s")
	ports, _ := s["ports"].([]any)
	var targets []int
	for _, p := range ports {
		targets = append(targets, c04Int(p.(map[string]any)["target"]))
	}
	env, _ := c04KV(s["environment"])
	vrtObserve("targets", targets)
	vrtObserve("env", env)
	switch tagged {
	case 0:
		vrtAssert("documents-append", len(targets) == 3 && targets[0] == 80 && targets[1] == 90 && targets[2] == 91)
		vrtAssert("documents-merge-env", len(env) == 3 && env["A"] == v && env["B"] == "2" && env["C"] == "3")
	case 1:
		vrtAssert("override-then-later-document-appends", len(targets) == 2 && targets[0] == 90 && targets[1] == 91)
		vrtAssert("override-then-later-document-merges", len(env) == 2 && env["B"] == "2" && env["C"] == "3")
	case 2:
		vrtAssert("reset-then-later-document-redefines", len(targets) == 1 && targets[0] == 91)
		vrtAssert("reset-then-later-document-redefines-env", len(env) == 1 && env["C"] == "3")
	}
	caps, _ := c04Strs(s["cap_add"])
	vrtAssert("later-documents-append-caps", len(caps) >= 2 && caps[0] == "X" && caps[1] == "Y")
}

// VerifC04ResetAlias: a tagged attribute inside an anchored mapping acts wherever the mapping is used - at the
// service that defines the anchor and at every service that refers to it, whichever comes first.
func VerifC04ResetAlias() {
	w := vrtRoot() + "/w"
	v := "x" + vrtString("v", vrtParam("VL", 1), "ab")
	tag := []string{"!reset", "!override"}[vrtChoice("tag", 2)]
	svc := func(name string) map[string]any {
		return map[string]any{"image": "i", "ports": []any{"8080:80"}, "command": []any{name, v}, "user": "keep"}
	}
	vrtYamlFile(w+"/compose.yaml", map[string]any{"services": map[string]any{"a": svc("a"), "b": svc("b"), "c": svc("c")}})
	val := nSeq(nStr("9090:90"))
	val.Tag = tag
	anchored := nMap(nStr("ports"), val, nStr("working_dir"), nStr("/w"+v))
	anchored.Anchor = "s"
	alias := func() *yaml.Node { return &yaml.Node{Kind: yaml.AliasNode, Value: "s", Alias: anchored} }
	// which service defines the anchor: the first or the last of those that use it
	var services *yaml.Node
	if vrtChoice("anchorOnFirst", 2) == 1 {
		services = nMap(nStr("a"), anchored, nStr("b"), alias(), nStr("c"), alias())
	} else {
		services = nMap(nStr("b"), anchored, nStr("a"), alias())
	}
	vrtYamlNodeFile(w+"/override.yaml", nMap(nStr("services"), services))
	m, err := tcLoadFiles(nil, w+"/compose.yaml", w+"/override.yaml")
	vrtObserve("err", err != nil)
	vrtAssert("loads", err == nil)
	if err != nil {
		vrtObserve("msg", err.Error())
		return
	}
	for _, name := range []string{"a", "b"} {
		s := tcSvc(m, name)
		vrtObserve("ports-"+name, s["ports"])
		vrtAssert("untagged-part-of-the-anchored-mapping-applied", s["working_dir"] == any("/w"+v) && s["user"] == any("keep"))
		l, _ := s["ports"].([]any)
		if tag == "!reset" {
			_, has := s["ports"]
			vrtAssert("reset-acts-at-every-use-of-the-anchor#"+name, !has)
		} else {
			vrtAssert("override-acts-at-every-use-of-the-anchor#"+name, len(l) == 1 && c04Int(l[0].(map[string]any)["target"]) == 90)
		}
	}
}

// VerifC04ResetOrder: several tags in one file, on entries whose names start with one another's (`web` and `web2`,
// `dns` and `dns_search`), at different depths (a whole service, one attribute): each acts on its own target,
// in whichever order the entries are declared.
func VerifC04ResetOrder() {
	w := vrtRoot() + "/w"
	v := "x" + vrtString("v", vrtParam("VL", 1), "ab")
	svc := func(name string) map[string]any {
		return map[string]any{"image": "i", "ports": []any{"8080:80"}, "dns": []any{"1.1.1.1"}, "dns_search": []any{name + v}, "user": "keep"}
	}
	vrtYamlFile(w+"/compose.yaml", map[string]any{"services": map[string]any{"web": svc("web"), "web2": svc("web2"), "other": svc("other")}})
	whole := &yaml.Node{Kind: yaml.ScalarNode, Value: "null", Tag: "!reset"}
	ports := nSeq()
	ports.Tag = "!reset"
	dns := &yaml.Node{Kind: yaml.ScalarNode, Value: "null", Tag: "!reset"}
	over := nSeq(nStr("9.9.9.9"))
	over.Tag = "!override"
	var web2 *yaml.Node
	if vrtChoice("attributesReversed", 2) == 1 {
		web2 = nMap(nStr("dns_search"), over, nStr("dns"), dns, nStr("ports"), ports)
	} else {
		web2 = nMap(nStr("ports"), ports, nStr("dns"), dns, nStr("dns_search"), over)
	}
	var services *yaml.Node
	switch vrtChoice("order", 3) {
	case 0:
		services = nMap(nStr("web"), whole, nStr("web2"), web2)
	case 1:
		services = nMap(nStr("web2"), web2, nStr("web"), whole)
	case 2: // the longer name alone
		services = nMap(nStr("web2"), web2)
	}
	wholeTagged := services.Content[0].Value == "web" || len(services.Content) > 2
	vrtYamlNodeFile(w+"/override.yaml", nMap(nStr("services"), services))
	m, err := tcLoadFiles(nil, w+"/compose.yaml", w+"/override.yaml")
	vrtObserve("err", err != nil)
	vrtAssert("loads", err == nil)
	if err != nil {
		vrtObserve("msg", err.Error())
		return
	}
	if wholeTagged {
		vrtAssert("whole-service-reset", tcSvc(m, "web") == nil)
	} else {
		vrtAssert("untagged-service-kept", tcSvc(m, "web")["user"] == any("keep"))
	}
	s := tcSvc(m, "web2")
	vrtObserve("web2", s)
	_, hasPorts := s["ports"]
	_, hasDNS := s["dns"]
	ds, _ := c04Strs(s["dns_search"])
	vrtAssert("attribute-reset-in-the-service-with-the-longer-name", s != nil && !hasPorts && !hasDNS)
	vrtAssert("override-of-the-attribute-with-the-longer-name", len(ds) == 1 && ds[0] == "9.9.9.9")
	vrtAssert("rest-of-that-service-kept", s["user"] == any("keep") && s["image"] == any("i"))
	o := tcSvc(m, "other")
	od, _ := c04Strs(o["dns_search"])
	vrtAssert("unmentioned-service-untouched", len(od) == 1 && od[0] == "other"+v && o["user"] == any("keep"))
}
