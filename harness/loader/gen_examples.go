package loader

import (
	"sort"
	"strings"
)

// Schema-driven example documents. The generator walks the compose JSON schema of the tree
// under test (read at check time) and yields, for one attribute, a bounded list of values
// of every shape the schema admits (each oneOf alternative, each type, empty / one / two
// element lists, each property singly and all together, keyed maps). No attribute is named
// here: what is covered follows the schema. Values that the loader rejects are filtered by
// the harnesses (only documents that load on their own are in scope of the identities).

type gen struct {
	root   map[string]any
	atom   string // the string leaf
	num    string // a string leaf that reads as a number / byte size
	dur    string // a string leaf that reads as a duration
	key    string // the key of keyed maps
	numStr bool   // numbers are written as the string spelling of the literal ("1", "0", "-1") wherever the schema also admits a string
	numVar bool   // numbers are written as variables (${ONE}, ${ZERO}, ${NEG}) wherever the schema also admits a string
	noExt  bool   // no x- extension attributes (the JSON rendering omits them below the top level by design)
}

// genSvc / genRes / genKey: the names of the service, the resource and the keyed-map key under test;
// the dotted variants exercise everything that addresses the model by dotted paths.
var genSvc, genRes, genKey = "s", "r", "k1"

// genSecond: with PAIR=1, the value a second service / resource carries for the same attribute (nil: none).
var genSecond any

// genNoExt is set by a harness before genPick when extension attributes are out of its scope.
var genNoExt bool

func genSorted(m map[string]any) []string {
	keys := make([]string, 0, len(m))
	for k := range m {
		keys = append(keys, k)
	}
	sort.Strings(keys)
	return keys
}

func (g *gen) deref(n map[string]any) map[string]any {
	for i := 0; i < 8; i++ {
		ref, ok := n["$ref"].(string)
		if !ok {
			return n
		}
		defs, _ := g.root["definitions"].(map[string]any)
		d, _ := defs[strings.TrimPrefix(ref, "#/definitions/")].(map[string]any)
		if d == nil {
			return map[string]any{}
		}
		n = d
	}
	return n
}

func genCap(depth int) int {
	switch depth {
	case 0:
		return 14
	case 1:
		return 6
	case 2:
		return 3
	}
	return 1
}

func (g *gen) strings(depth int) []any {
	a := g.atom
	pool := []any{a, g.num, g.dur, "./" + a, "k=" + a, a + ":/" + a, "/" + a}
	if depth >= 2 {
		return pool[:3]
	}
	return pool
}

func genClone(m map[string]any) map[string]any {
	out := map[string]any{}
	for _, k := range genSorted(m) {
		out[k] = m[k]
	}
	return out
}

// interleave merges lists round robin so that every alternative is represented under a cap.
func genInterleave(lists [][]any, max int) []any {
	var out []any
	for i := 0; len(out) < max; i++ {
		got := false
		for _, l := range lists {
			if i < len(l) {
				got = true
				if len(out) < max {
					out = append(out, l[i])
				}
			}
		}
		if !got {
			break
		}
	}
	return out
}

func (g *gen) examples(n map[string]any, depth int) []any {
	n = g.deref(n)
	max := genCap(depth)
	var lists [][]any
	for _, kw := range []string{"oneOf", "anyOf"} {
		if alts, ok := n[kw].([]any); ok {
			for _, a := range alts {
				if am, ok := a.(map[string]any); ok {
					lists = append(lists, g.examples(am, depth))
				}
			}
		}
	}
	var types []string
	switch t := n["type"].(type) {
	case string:
		types = []string{t}
	case []any:
		for _, e := range t {
			if s, ok := e.(string); ok {
				types = append(types, s)
			}
		}
	}
	if len(types) == 0 && len(lists) == 0 {
		if _, ok := n["properties"]; ok {
			types = []string{"object"}
		} else if _, ok := n["enum"]; ok {
			types = []string{"string"}
		}
	}
	for _, t := range types {
		switch t {
		case "string":
			if enum, ok := n["enum"].([]any); ok {
				lists = append(lists, enum)
			} else {
				lists = append(lists, g.strings(depth))
			}
		case "number", "integer":
			admitsString := false
			for _, t2 := range types {
				if t2 == "string" {
					admitsString = true
				}
			}
			if g.numVar && admitsString {
				lists = append(lists, []any{"${ONE}", "${ZERO}", "${NEG}"})
			} else if g.numStr && admitsString {
				lists = append(lists, []any{"1", "0", "-1"})
			} else {
				lists = append(lists, []any{1, 0, -1})
			}
		case "boolean":
			lists = append(lists, []any{true, false})
		case "null":
			lists = append(lists, []any{nil})
		case "array":
			var ex []any
			if items, ok := n["items"].(map[string]any); ok {
				ex = g.examples(items, depth+1)
			} else {
				ex = []any{g.atom}
			}
			var l []any
			for k, e := range ex {
				l = append(l, []any{e})
				if k == 0 && len(ex) > 1 {
					l = append(l, []any{ex[0], ex[1]})
				}
			}
			l = append(l, []any{})
			lists = append(lists, l)
		case "object":
			lists = append(lists, g.objects(n, depth))
		}
	}
	return genInterleave(lists, max)
}

func (g *gen) objects(n map[string]any, depth int) []any {
	var out []any
	props, _ := n["properties"].(map[string]any)
	base := map[string]any{}
	if req, ok := n["required"].([]any); ok {
		for _, r := range req {
			name, _ := r.(string)
			if pm, ok := props[name].(map[string]any); ok {
				if ex := g.examples(pm, depth+1); len(ex) > 0 {
					base[name] = ex[0]
				}
			}
		}
	}
	if len(props) > 0 {
		all := genClone(base)
		per := 2
		if depth >= 1 {
			per = 1
		}
		for _, name := range genSorted(props) {
			pm, ok := props[name].(map[string]any)
			if !ok {
				continue
			}
			ex := g.examples(pm, depth+1)
			for k, e := range ex {
				if k >= per {
					break
				}
				m := genClone(base)
				m[name] = e
				out = append(out, m)
			}
			if len(ex) > 0 {
				if _, has := all[name]; !has {
					all[name] = ex[0]
				}
			}
		}
		// the object with every property at once goes first
		out = append([]any{all}, out...)
	}
	keyed := func(sub map[string]any, prefix string) {
		ex := g.examples(sub, depth+1)
		for k, e := range ex {
			if k >= 3 {
				break
			}
			m := genClone(base)
			m[prefix+g.key] = e
			out = append(out, m)
		}
		if len(ex) > 1 {
			m := genClone(base)
			m[prefix+g.key] = ex[0]
			m[prefix+g.key+"2"] = ex[1]
			out = append(out, m)
		}
	}
	pp, _ := n["patternProperties"].(map[string]any)
	nonExt := 0
	for _, pat := range genSorted(pp) {
		sub, _ := pp[pat].(map[string]any)
		if sub == nil {
			sub = map[string]any{}
		}
		if strings.HasPrefix(pat, "^x-") {
			if depth <= 1 && !g.noExt {
				m := genClone(base)
				m["x-"+g.key] = g.atom
				out = append(out, m)
			}
			continue
		}
		nonExt++
		keyed(sub, "")
	}
	if ap, ok := n["additionalProperties"].(map[string]any); ok && nonExt == 0 {
		keyed(ap, "")
		nonExt++
	}
	if len(props) == 0 || nonExt > 0 {
		out = append(out, genClone(base))
	}
	return out
}

// genSite describes where in a document an attribute lives.
type genSite struct {
	def     string // schema definition name
	section string // top-level section
}

var genSites = []genSite{
	{"service", "services"},
	{"network", "networks"},
	{"volume", "volumes"},
	{"secret", "secrets"},
	{"config", "configs"},
}

// genPick chooses a site, an attribute of it and one example value; ok is false when the
// choice has no example. PART / PARTS split the attributes over several harness entries.
func genPick(atom, num, dur string) (site genSite, attr string, value any, ok bool) {
	root := vrtSchemaTree()
	dotted := vrtParam("DOTTED", 0)
	if dotted < 0 {
		dotted = vrtChoice("dottedNames", 4)
	}
	genSvc, genRes, genKey = "s", "r", "k1"
	switch dotted {
	case 1:
		genSvc, genRes, genKey = "s.x", "r.x", "k.1"
	case 2:
		// names that merely contain the extension prefix
		genSvc, genRes, genKey = "nx-s", "nx-r", "kx-1"
	case 3:
		// names that start like an extension key (valid names for services and resources)
		genSvc, genRes, genKey = "x-s", "x-r", "k1"
	}
	g := &gen{root: root, atom: atom, num: num, dur: dur, key: genKey, noExt: genNoExt}
	genNoExt = false // one-shot: the next pick starts from the default again
	nsites := vrtParam("SITES", len(genSites))
	site = genSites[vrtChoice("site", nsites)]
	defs, _ := root["definitions"].(map[string]any)
	def, _ := defs[site.def].(map[string]any)
	props, _ := def["properties"].(map[string]any)
	var attrs []string
	part, parts := vrtParam("PART", 0), vrtParam("PARTS", 1)
	for i, a := range genSorted(props) {
		if a == "extends" {
			continue // resolved per file before merging: has its own checks (C05)
		}
		if i%parts == part {
			attrs = append(attrs, a)
		}
	}
	vrtAssume(len(attrs) > 0)
	attr = attrs[vrtChoice("attr", len(attrs))]
	pm, _ := props[attr].(map[string]any)
	ex := g.examples(pm, 0)
	vrtAssume(len(ex) > 0)
	k := vrtChoice("example", len(ex))
	value = ex[k]
	genSecond = nil
	if vrtParam("PAIR", 0) == 1 && len(ex) > 1 {
		// a second service / resource carries the next example of the same attribute: loops over services and
		// resources meet two different shapes
		genSecond = genCopy(ex[(k+1)%len(ex)])
	}
	return site, attr, value, true
}

// genDoc embeds the attribute into a document where every name an example may refer to is declared.
func genDoc(site genSite, attr string, value any) map[string]any {
	s := map[string]any{"image": "i"}
	doc := map[string]any{
		"services": map[string]any{genSvc: s, "v1": map[string]any{"image": "i"}},
		"networks": map[string]any{"v1": map[string]any{}},
		"volumes":  map[string]any{"v1": map[string]any{}},
		"secrets":  map[string]any{"v1": map[string]any{"file": "./v1"}},
		"configs":  map[string]any{"v1": map[string]any{"file": "./v1"}},
	}
	if site.section == "services" {
		s[attr] = value
	} else {
		r := map[string]any{}
		if site.section == "secrets" || site.section == "configs" {
			if attr != "file" && attr != "environment" && attr != "content" && attr != "external" {
				r["file"] = "./v1"
			}
		}
		r[attr] = value
		doc[site.section].(map[string]any)[genRes] = r
		if genSecond != nil {
			r2 := genClone(r)
			r2[attr] = genCopy(genSecond)
			doc[site.section].(map[string]any)["a2"] = r2
		}
	}
	if genSecond != nil && site.section == "services" {
		doc["services"].(map[string]any)["a2"] = map[string]any{"image": "i", attr: genCopy(genSecond)}
	}
	return doc
}

// genFiles creates the files the examples may name.
func genFiles() {
	w := vrtRoot() + "/w"
	vrtFile(w+"/v1", "K=v\n")
	vrtFile(w+"/10", "K=v\n")
	vrtFile(w+"/1s", "K=v\n")
}

// genCopy copies a document tree (the loader may keep or change what it is given).
func genCopy(v any) any {
	switch x := v.(type) {
	case map[string]any:
		if x == nil {
			return x
		}
		out := make(map[string]any, len(x))
		for _, k := range genSorted(x) {
			out[k] = genCopy(x[k])
		}
		return out
	case []any:
		if x == nil {
			return x
		}
		out := make([]any, len(x))
		for i, e := range x {
			out[i] = genCopy(e)
		}
		return out
	}
	return v
}
