package dotenv

// C18: the env-file parser. (a) arbitrary byte strings never crash it and an
// unterminated quote is an error; (b) files assembled from the documented line grammar
// parse to exactly the map a reference evaluator computes.

// VerifC18NoCrash: any panic escaping here is reported by the engine as a violation.
func VerifC18NoCrash() {
	L := vrtParam("L", 4)
	src := vrtString("src", L, "K=: \n\"'\\#${}e0\r")
	look := vrtChoice("lookupK", 2)
	out, err := UnmarshalWithLookup(src, func(k string) (string, bool) {
		if look == 1 && k == "K" {
			return "v", true
		}
		return "", false
	})
	vrtObserve("err", err != nil)
	if err == nil {
		vrtObserve("n", len(out))
		vrtCover("parsed")
	} else {
		vrtCover("rejected")
	}
	// an opening quote directly after the separator that is never closed must be an error
	if len(src) >= 3 && src[0] == 'K' && src[1] == '=' && (src[2] == '"' || src[2] == '\'') {
		q := src[2]
		closed := false
		esc := false
		for i := 3; i < len(src); i++ {
			c := src[i]
			if esc {
				esc = false
				continue
			}
			if c == '\\' {
				esc = true
				continue
			}
			if c == q {
				closed = true
				break
			}
		}
		if !closed {
			vrtCover("unterminated")
			vrtAssert("unterminated-quote-is-error", err != nil)
		}
	}
}

type c18Line struct {
	text string
	key  string
	set  bool   // line assigns key
	inh  bool   // bare key: inherited from lookup
	val  string // value before reference expansion
	ref  string // name referenced by a trailing $NAME/${NAME} ("" none)
	lit  bool   // no expansion (single quotes)
}

func c18MakeLine(n int) c18Line {
	keys := []string{"A", "B"}
	key := keys[vrtChoice("key", 2)]
	styles := []int{0, 1, 2, 3, 4, 5, 6, 7, 8, 9, 10, 11}
	reftexts := []string{"", "$A", "${A}", "$B", "${B}", "$C", "${C}"}
	refnames := []string{"", "A", "A", "B", "B", "C", "C"}
	if vrtParam("CROSS", 0) == 1 {
		// reduced per-line variety for the multi-line (cross-line) harness
		styles = []int{0, 4, 7, 6, 9}
		reftexts = []string{"", "$A", "${B}"}
		refnames = []string{"", "A", "B"}
	}
	style := styles[vrtChoice("style", len(styles))]
	v := vrtString("val", vrtParam("VL", 2), "ab")
	ref := ""
	reftext := ""
	if style != 4 && style != 5 && style != 9 && style != 10 {
		r := vrtChoice("ref", len(reftexts))
		ref = refnames[r]
		reftext = reftexts[r]
	}
	l := c18Line{key: key, set: true, val: v, ref: ref}
	switch style {
	case 0:
		l.text = key + "=" + v + reftext
	case 1:
		l.text = key + " = " + v + reftext
	case 2:
		l.text = key + ": " + v + reftext
	case 3:
		l.text = "export " + key + "=" + v + reftext
	case 4:
		l.text = key
		l.set, l.inh = false, true
	case 5:
		l.text = key + "="
		l.val = ""
	case 6:
		l.text = key + "='" + v + reftext + "'"
		l.val = v + reftext
		l.lit = true
		l.ref = ""
	case 7:
		// double quotes with an escape atom in front
		atoms := []string{"", "\\n", "\\\\", "\\\"", "\\$", "\\t"}
		outs := []string{"", "\n", "\\", "\"", "$", "\t"}
		na := len(atoms)
		if vrtParam("CROSS", 0) == 1 {
			na = 2
		}
		a := vrtChoice("atom", na)
		l.text = key + "=\"" + atoms[a] + v + reftext + "\""
		l.val = outs[a] + v
	case 8:
		// the statement does not say what an empty value followed by a comment means: keep the value non-empty
		l.text = key + "=x" + v + reftext + " # c"
		l.val = "x" + v
	case 9:
		l.text = "# " + v
		l.set = false
	case 10:
		l.text = ""
		l.set = false
	case 11:
		l.text = key + "=" + v + reftext + "\r"
	}
	return l
}

func VerifC18Grammar() {
	n := vrtParam("LINES", 2)
	lookA := vrtChoice("lookupA", 5)
	lookVal := "L"
	switch lookA {
	case 2:
		lookVal = "" // defined but empty in the lookup: still takes precedence over earlier lines
	case 3:
		// a value that would read differently if it were scanned again: it is taken as it is
		lookVal = "p$$w${B} #c"
	case 4:
		lookVal = "\"q\" $B"
	}
	lookup := func(k string) (string, bool) {
		if lookA >= 1 && k == "A" {
			return lookVal, true
		}
		return "", false
	}
	var lines []c18Line
	src := ""
	// the last line may be indented: leading blanks are not part of a statement
	indent := []string{"", "  ", "\t"}[vrtChoice("lastLineIndent", 3)]
	for i := 0; i < n; i++ {
		l := c18MakeLine(i)
		lines = append(lines, l)
		if i == n-1 {
			src += indent
		}
		src += l.text + "\n"
	}
	if vrtChoice("finalNewline", 2) == 0 && len(src) > 0 {
		src = src[:len(src)-1]
	}
	got, err := UnmarshalWithLookup(src, lookup)
	vrtObserve("err", err != nil)
	vrtAssert("grammar-file-parses", err == nil)
	if err != nil {
		return
	}
	// reference evaluation
	want := map[string]string{}
	for _, l := range lines {
		if l.inh {
			if v, ok := lookup(l.key); ok {
				want[l.key] = v
			}
			continue
		}
		if !l.set {
			continue
		}
		v := l.val
		if !l.lit && l.ref != "" {
			if x, ok := lookup(l.ref); ok {
				v += x
			} else if x, ok := want[l.ref]; ok {
				v += x
			}
		}
		want[l.key] = v
	}
	vrtObserve("got", got)
	vrtAssert("same-keys", len(got) == len(want))
	for k, w := range want {
		g, ok := got[k]
		vrtAssert("key-present", ok)
		vrtAssert("value-equal", g == w)
	}
}

// VerifC18Unquoted: an unquoted value runs to the end of line, is cut at the first
// " #" (inline comment) and loses trailing white space.
func VerifC18Unquoted() {
	v := "a" + vrtString("tail", vrtParam("L", 5), "a #\t")
	src := "K=" + v
	if vrtChoice("nl", 2) == 1 {
		src += "\nB=b"
	}
	got, err := UnmarshalWithLookup(src, nil)
	vrtObserve("err", err != nil)
	vrtAssert("parses", err == nil)
	if err != nil {
		return
	}
	// reference
	w := v
	for i := 0; i+1 < len(w); i++ {
		if w[i] == ' ' && w[i+1] == '#' {
			w = w[:i]
			break
		}
	}
	for len(w) > 0 && (w[len(w)-1] == ' ' || w[len(w)-1] == '\t') {
		w = w[:len(w)-1]
	}
	vrtObserve("K", got["K"])
	vrtAssert("unquoted-value", got["K"] == w)
}

// VerifC18Tokens: files assembled from the parser's own vocabulary (keywords, separators, quotes, escapes, comment
// and reference markers) and concrete non-ASCII characters whose UTF-8 encoding ends in bytes that read as blanks
// (0x85, 0xA0) when taken one by one. Any panic is a violation; a line made of a key of letters, `=` and a value
// parses to exactly that pair, and a bare key of letters is inherited from the lookup under exactly that name.
func VerifC18Tokens() {
	dict := []string{"export", "export ", "K", "A", "=", ":", " ", "\n", "\"", "'", "#", "$", "{", "}", "\\", "\t", "\r", "à", "Å", "é", "丅", "\u0085", " ", "\xa0", "\xc3"}
	n := 1 + vrtChoice("tokens", vrtParam("TOK", 3))
	src := ""
	for k := 0; k < n; k++ {
		src += dict[vrtChoice("token", len(dict))]
	}
	_, err := UnmarshalWithLookup(src, func(k string) (string, bool) { return "v", k == "K" })
	vrtObserve("err", err != nil)
}

func VerifC18Keys() {
	letters := []string{"K", "b", "_", "à", "Å", "é", "ö", "丅", "ą", "Š"}
	n := 1 + vrtChoice("letters", vrtParam("KL", 2))
	key := ""
	for k := 0; k < n; k++ {
		key += letters[vrtChoice("letter", len(letters))]
	}
	vrtAssume(key[0] != '_' || len(key) > 1)
	form := vrtChoice("form", 4)
	sep := []string{"=", ": ", " = "}[vrtChoice("sep", 3)]
	var src string
	want := map[string]string{}
	switch form {
	case 0:
		src = key + sep + "1\n"
		want[key] = "1"
	case 1:
		src = "export " + key + sep + "1"
		want[key] = "1"
	case 2: // bare key, inherited from the lookup
		src = "A=0\n" + key
		want["A"] = "0"
		want[key] = "looked-up"
	case 3: // bare key followed by blanks
		src = key + " \nA=0\n"
		want["A"] = "0"
		want[key] = "looked-up"
	}
	if vrtChoice("innerSpace", 2) == 1 {
		// a blank inside the key: an invalid key, in every form and wherever the line ends
		bad := key + " b"
		switch form {
		case 0:
			src = bad + sep + "1\n"
		case 1:
			src = "export " + bad + sep + "1"
		case 2:
			src = "A=0\n" + bad
		case 3:
			src = bad + " \nA=0\n"
		}
		_, err := UnmarshalWithLookup(src, func(k string) (string, bool) { return "looked-up", true })
		vrtObserve("err", err != nil)
		vrtAssert("key-with-an-inner-blank-is-an-error", err != nil)
		return
	}
	got, err := UnmarshalWithLookup(src, func(k string) (string, bool) { return "looked-up", k == key })
	vrtObserve("err", err != nil)
	vrtAssert("line-of-letters-parses", err == nil)
	if err != nil {
		return
	}
	vrtObserve("n", len(got))
	vrtAssert("exact-key-and-value", vrtDeepEqual(got, want))
}

// VerifC18Reassign: four lines over two variables, each an assignment of a literal or of a reference to either
// variable (plain, braced, double-quoted), in every order: a reference sees the value its variable has at that line
// - the lookup's if the lookup defines it, else the latest earlier assignment - and the last assignment of a key wins.
func VerifC18Reassign() {
	vars := []string{"A", "B"}
	lookupA := vrtChoice("lookupDefinesA", 2) == 1
	lookup := func(k string) (string, bool) {
		if lookupA && k == "A" {
			return "L", true
		}
		return "", false
	}
	cur := map[string]string{}
	src := ""
	n := 2 + vrtChoice("lines", vrtParam("LINES", 3))
	for k := 0; k < n; k++ {
		x := vars[vrtChoice("target", 2)]
		var val string
		if vrtChoice("kind", 2) == 0 {
			val = string(rune('1' + k))
			src += x + "=" + val + "\n"
		} else {
			y := vars[vrtChoice("ref", 2)]
			form := vrtChoice("refForm", 3)
			if v, ok := lookup(y); ok {
				val = v
			} else {
				val = cur[y]
			}
			val += "z"
			src += x + "=" + []string{"$" + y + "z", "${" + y + "}z", "\"${" + y + "}z\""}[form] + "\n"
			if form == 0 {
				// $Yz names the variable Yz, which nothing defines
				val = ""
			}
		}
		cur[x] = val
	}
	got, err := UnmarshalWithLookup(src, lookup)
	vrtObserve("err", err != nil)
	vrtAssert("parses", err == nil)
	if err != nil {
		return
	}
	vrtObserve("n", len(got))
	vrtAssert("references-see-the-current-value-and-last-assignment-wins", vrtDeepEqual(got, cur))
}

// VerifC18Quotes: single- and double-quoted values ending in runs of backslashes, followed by further quoted lines.
func VerifC18Quotes() {
	q := []string{"'", "\""}[vrtChoice("quote", 2)]
	bs := vrtChoice("backslashes", 4) // backslashes before the closing quote
	body := "x"
	for k := 0; k < bs; k++ {
		body += "\\"
	}
	second := []string{"B='y'\n", "B=\"y\"\n", "# it's a comment\nB=y\n", "B=y\n"}[vrtChoice("second", 4)]
	src := "A=" + q + body + q + "\n" + second
	got, err := UnmarshalWithLookup(src, func(string) (string, bool) { return "", false })
	vrtObserve("err", err != nil)
	if q == "'" {
		// single quotes: a backslash only escapes a quote; an odd run therefore keeps the value open
		if bs%2 == 1 {
			return // the closing quote is escaped: where the value ends depends on the following lines - not asserted here
		}
		vrtAssert("single-quoted-parses", err == nil)
		if err == nil {
			vrtObserve("A", got["A"])
			vrtAssert("single-quoted-is-literal", got["A"] == body && got["B"] == "y" && len(got) == 2)
		}
		return
	}
	if bs%2 == 1 {
		return
	}
	vrtAssert("double-quoted-parses", err == nil)
	if err == nil {
		want := "x"
		for k := 0; k < bs/2; k++ {
			want += "\\"
		}
		vrtObserve("A", got["A"])
		vrtAssert("double-quoted-unescapes-backslash-pairs", got["A"] == want && got["B"] == "y" && len(got) == 2)
	}
}
