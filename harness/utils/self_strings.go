package utils

import (
	"regexp"
	"strings"
)

// Engine self-test: the string / regexp intrinsics against naive reference loops, over
// symbolic strings. Run by `symx selftest` (setup_cmd).

func selfIndex(s, sub string) int {
	for i := 0; i+len(sub) <= len(s); i++ {
		if s[i:i+len(sub)] == sub {
			return i
		}
	}
	return -1
}

func selfLastIndex(s, sub string) int {
	for i := len(s) - len(sub); i >= 0; i-- {
		if s[i:i+len(sub)] == sub {
			return i
		}
	}
	return -1
}

func selfIsSpace(c byte) bool { return c == ' ' || (c >= 9 && c <= 13) }

func selfTrimSpace(s string) string {
	for len(s) > 0 && selfIsSpace(s[0]) {
		s = s[1:]
	}
	for len(s) > 0 && selfIsSpace(s[len(s)-1]) {
		s = s[:len(s)-1]
	}
	return s
}

func selfSplit(s, sep string) []string {
	var out []string
	for {
		i := selfIndex(s, sep)
		if i < 0 {
			return append(out, s)
		}
		out = append(out, s[:i])
		s = s[i+len(sep):]
	}
}

func selfLower(s string) string {
	b := []byte(s)
	for i, c := range b {
		if c >= 'A' && c <= 'Z' {
			b[i] = c + 32
		}
	}
	return string(b)
}

func VerifSelfStrings() {
	s := vrtString("s", vrtParam("L", 4), "aB=: ")
	sub := vrtString("sub", 2, "a=:")
	vrtAssume(len(sub) > 0)
	vrtAssert("Index", strings.Index(s, sub) == selfIndex(s, sub))
	vrtAssert("LastIndex", strings.LastIndex(s, sub) == selfLastIndex(s, sub))
	vrtAssert("Contains", strings.Contains(s, sub) == (selfIndex(s, sub) >= 0))
	vrtAssert("HasPrefix", strings.HasPrefix(s, sub) == (len(s) >= len(sub) && s[:len(sub)] == sub))
	vrtAssert("HasSuffix", strings.HasSuffix(s, sub) == (len(s) >= len(sub) && s[len(s)-len(sub):] == sub))
	b, a, ok := strings.Cut(s, sub)
	i := selfIndex(s, sub)
	if i >= 0 {
		vrtAssert("Cut-found", ok && b == s[:i] && a == s[i+len(sub):])
	} else {
		vrtAssert("Cut-missing", !ok && b == s && a == "")
	}
	vrtAssert("TrimSpace", strings.TrimSpace(s) == selfTrimSpace(s))
	vrtAssert("ToLower", strings.ToLower(s) == selfLower(s))
	vrtAssert("TrimPrefix", strings.TrimPrefix(s, sub) == func() string {
		if len(s) >= len(sub) && s[:len(sub)] == sub {
			return s[len(sub):]
		}
		return s
	}())
	got := strings.Split(s, sub)
	want := selfSplit(s, sub)
	vrtAssert("Split-len", len(got) == len(want))
	if len(got) == len(want) {
		for k := range got {
			vrtAssert("Split-part", got[k] == want[k])
		}
	}
	n2 := strings.SplitN(s, sub, 2)
	if i >= 0 {
		vrtAssert("SplitN", len(n2) == 2 && n2[0] == s[:i] && n2[1] == s[i+len(sub):])
	} else {
		vrtAssert("SplitN-missing", len(n2) == 1 && n2[0] == s)
	}
	vrtAssert("ReplaceAll", strings.ReplaceAll(s, sub, "X") == strings.Join(want, "X"))
	vrtAssert("TrimLeft", strings.TrimLeft(s, "a=") == func() string {
		t := s
		for len(t) > 0 && (t[0] == 'a' || t[0] == '=') {
			t = t[1:]
		}
		return t
	}())
	vrtObserve("idx", strings.Index(s, sub))
}

var selfRx = regexp.MustCompile(`^a+(=|:)(B*)$`)
var selfRx2 = regexp.MustCompile(`[a-z0-9_-]`)

func VerifSelfRegexp() {
	s := vrtString("s", vrtParam("L", 4), "aB=:_")
	// reference for ^a+(=|:)(B*)$
	i := 0
	for i < len(s) && s[i] == 'a' {
		i++
	}
	ok := i > 0 && i < len(s) && (s[i] == '=' || s[i] == ':')
	j := i + 1
	if ok {
		for j < len(s) && s[j] == 'B' {
			j++
		}
		ok = j == len(s)
	}
	vrtAssert("MatchString", selfRx.MatchString(s) == ok)
	m := selfRx.FindStringSubmatch(s)
	vrtAssert("Submatch-nil", (m == nil) == !ok)
	if ok && m != nil {
		vrtAssert("Submatch-groups", len(m) == 3 && m[0] == s && m[1] == s[i:i+1] && m[2] == s[i+1:])
	}
	all := selfRx2.FindAllString(s, -1)
	want := ""
	for k := 0; k < len(s); k++ {
		c := s[k]
		if (c >= 'a' && c <= 'z') || (c >= '0' && c <= '9') || c == '_' || c == '-' {
			want += string(c)
		}
	}
	vrtAssert("FindAllString", strings.Join(all, "") == want)
	vrtObserve("match", selfRx.MatchString(s))
}
