package cli

import "context"

// C17: project name and project environment precedence, through the public cli API
// (NewProjectOptions + LoadProject) over a virtual file system.

func c17Normalize(s string) string {
	out := ""
	for i := 0; i < len(s); i++ {
		c := s[i]
		if c >= 'A' && c <= 'Z' {
			c += 32
		}
		if (c >= 'a' && c <= 'z') || (c >= '0' && c <= '9') || c == '_' || c == '-' {
			out += string(c)
		}
	}
	for len(out) > 0 && (out[0] == '_' || out[0] == '-') {
		out = out[1:]
	}
	return out
}

func c17Valid(s string) bool {
	if s == "" {
		return false
	}
	c := s[0]
	if !((c >= 'a' && c <= 'z') || (c >= '0' && c <= '9')) {
		return false
	}
	for i := 1; i < len(s); i++ {
		c := s[i]
		if !((c >= 'a' && c <= 'z') || (c >= '0' && c <= '9') || c == '_' || c == '-') {
			return false
		}
	}
	return true
}

func VerifC17Name() {
	root := vrtRoot()
	alpha := "aZ1_-."
	L := vrtParam("L", 2)
	dirs := []string{"proj", "My.Dir", "_x9", "UP", "--", ".-cache", "._My.Proj", "@_x"}
	slim := vrtParam("OPTS", 1) > 1 // the entry that varies the loader options keeps three directories and no link
	if slim {
		dirs = []string{"proj", "My.Dir", "--"}
	}
	dir := dirs[vrtChoice("dir", len(dirs))]
	wd := root + "/w/" + dir
	vrtDir(wd)
	if !slim && vrtChoice("viaSymlink", 2) == 1 {
		// the project directory the caller names is a symbolic link to a directory of another name: the name the
		// caller uses counts
		link := "ln" + dir
		vrtSymlink(wd, root+"/links/"+link)
		wd = root + "/links/" + link
		dir = link
	}
	// name: in compose files
	nameCase := vrtChoice("fileName", 6) // 0 none, 1 first file literal, 2 both files (last wins), 3 interpolated ${NV}, 4 / 5 in a later YAML document of the first file
	fileName := ""
	base := map[string]any{"services": map[string]any{"s": map[string]any{"image": "i"}}}
	over := map[string]any{"services": map[string]any{"s": map[string]any{"hostname": "h"}}}
	var envList []string
	switch nameCase {
	case 1:
		fileName = []string{"", ".-", "._"}[vrtChoice("namePrefix", 3)] + vrtString("name1", L, alpha)
		base["name"] = fileName
	case 2:
		base["name"] = "first"
		fileName = vrtString("name2", L, alpha)
		over["name"] = fileName
		if fileName == "" {
			fileName = "first"
		}
	case 3:
		fileName = vrtString("nameV", L, alpha)
		base["name"] = "${NV}"
		envList = append(envList, "NV="+fileName)
	}
	switch nameCase {
	case 4, 5:
		// the first file is a stream of two documents; the name sits in the second one (5: and another one in the first)
		fileName = vrtString("nameDoc2", L, alpha)
		second := map[string]any{"services": map[string]any{"s": map[string]any{"user": "u"}}}
		if fileName != "" {
			second["name"] = fileName
		}
		if nameCase == 5 {
			base["name"] = "first"
			if fileName == "" {
				fileName = "first"
			}
		}
		vrtYamlFile(wd+"/compose.yaml", base, second)
	default:
		vrtYamlFile(wd+"/compose.yaml", base)
	}
	vrtYamlFile(wd+"/over.yaml", over)
	// COMPOSE_PROJECT_NAME: absent / OS env / .env
	cpn := vrtChoice("cpn", 3)
	cpnVal := ""
	if cpn != 0 {
		cpnVal = vrtString("cpnVal", L, alpha)
		if cpn == 1 {
			vrtEnv("COMPOSE_PROJECT_NAME", cpnVal)
		} else {
			vrtFile(wd+"/.env", "COMPOSE_PROJECT_NAME="+cpnVal+"\n")
		}
	}
	// explicit name
	explicit := ""
	hasExplicit := vrtChoice("explicit", 2) == 1
	if hasExplicit {
		explicit = vrtString("explicitName", L, alpha)
	}
	var opts []ProjectOptionsFn
	if hasExplicit {
		opts = append(opts, WithName(explicit))
	}
	opts = append(opts, WithWorkingDirectory(wd), WithEnv(envList), WithOsEnv, WithEnvFiles(), WithDotEnv)
	// loader options that have nothing to do with the name: the name is settled the same way under each of them
	switch vrtChoice("loaderOption", vrtParam("OPTS", 1)) {
	case 1:
		opts = append(opts, WithNormalization(false))
	case 2:
		opts = append(opts, WithConsistency(false))
	case 3:
		opts = append(opts, WithResolvedPaths(false))
	case 4:
		opts = append(opts, WithDiscardEnvFile)
	}
	po, err := NewProjectOptions([]string{wd + "/compose.yaml", wd + "/over.yaml"}, opts...)
	var name string
	var gotEnvName string
	if err == nil {
		p, e := po.LoadProject(context.Background())
		err = e
		if e == nil {
			name = p.Name
			gotEnvName = p.Environment["COMPOSE_PROJECT_NAME"]
		}
	}
	vrtObserve("err", err != nil)
	vrtObserve("name", name)
	// reference
	want, wantErr := "", false
	switch {
	case hasExplicit && explicit != "":
		if c17Normalize(explicit) != explicit {
			wantErr = true
		}
		want = explicit
	case cpn != 0 && cpnVal != "":
		if c17Normalize(cpnVal) != cpnVal {
			wantErr = true
		}
		want = cpnVal
	case c17Normalize(fileName) != "":
		want = c17Normalize(fileName)
	default:
		want = c17Normalize(dir)
		if want == "" {
			wantErr = true
		}
	}
	if hasExplicit && explicit == "" && false {
		_ = want
	}
	if wantErr {
		vrtCover("rejected")
		vrtAssert("invalid-name-rejected", err != nil)
		return
	}
	vrtCover("named")
	vrtAssert("loads", err == nil)
	if err != nil {
		return
	}
	vrtAssert("name-precedence", name == want)
	vrtAssert("name-normal-form", c17Valid(name))
	vrtAssert("name-visible-as-COMPOSE_PROJECT_NAME", gotEnvName == name)
}

// VerifC17Env: explicit > OS > later .env > earlier .env, and .env values may reference the variables above them.
func VerifC17Env() {
	root := vrtRoot()
	wd := root + "/w/proj"
	vrtDir(wd)
	vrtYamlFile(wd+"/compose.yaml", map[string]any{"services": map[string]any{"s": map[string]any{"image": "i"}}})
	inExplicit := vrtChoice("inExplicit", 2) == 1
	inOS := vrtChoice("inOS", 2) == 1
	in1 := vrtChoice("inEnv1", 2) == 1
	in2 := vrtChoice("inEnv2", 2) == 1
	v := vrtString("v", vrtParam("VL", 1), "ab=")
	var explicitEnv []string
	explicitEmpty := false
	if inExplicit {
		if vrtChoice("explicitEmpty", 2) == 1 {
			explicitEmpty = true // an explicit empty value still wins over the OS value
			explicitEnv = append(explicitEnv, "X=")
		} else {
			explicitEnv = append(explicitEnv, "X=ex"+v)
		}
	}
	if inOS {
		vrtEnv("X", "os"+v)
	}
	f1, f2 := "", "Y=${X}\nZ=${X:-unset}\n"
	if in1 {
		f1 = "X=one" + v + "\n"
	}
	if in2 {
		f2 = "X=two" + v + "\n" + f2
	}
	vrtFile(wd+"/one.env", f1)
	vrtFile(wd+"/two.env", f2)
	// the files as the caller lists them: a later entry wins, also when it names a file already listed
	listing := vrtChoice("listing", 3)
	files := []string{wd + "/one.env", wd + "/two.env"}
	switch listing {
	case 1:
		files = append(files, wd+"/one.env")
	case 2:
		vrtDir(wd + "/sub")
		files = append(files, wd+"/sub/../one.env")
	}
	var opts []ProjectOptionsFn
	if vrtChoice("order", 2) == 0 {
		opts = []ProjectOptionsFn{WithName("p"), WithWorkingDirectory(wd), WithEnv(explicitEnv), WithOsEnv, WithEnvFiles(files...), WithDotEnv}
	} else {
		opts = []ProjectOptionsFn{WithName("p"), WithWorkingDirectory(wd), WithOsEnv, WithEnv(explicitEnv), WithEnvFiles(files...), WithDotEnv}
	}
	po, err := NewProjectOptions([]string{wd + "/compose.yaml"}, opts...)
	vrtAssert("options-ok", err == nil)
	if err != nil {
		return
	}
	p, err := po.LoadProject(context.Background())
	vrtObserve("err", err != nil)
	vrtAssert("loads", err == nil)
	if err != nil {
		return
	}
	want, set := "", true
	switch {
	case inExplicit && explicitEmpty:
		want = ""
	case inExplicit:
		want = "ex" + v
	case inOS:
		want = "os" + v
	case in1 && listing != 0:
		want = "one" + v // listed again after two.env
	case in2:
		want = "two" + v
	case in1:
		want = "one" + v
	default:
		set = false
	}
	got, ok := p.Environment["X"]
	vrtObserve("X", got)
	vrtAssert("variable-presence", ok == set)
	vrtAssert("variable-precedence", got == want)
	if listing != 0 {
		return
	}
	if in1 && in2 && !inExplicit && !inOS {
		// X comes from an earlier file and from an earlier line of the same file: which of the two a
		// reference sees is not fixed by the statement
		vrtCover("earlier-file-vs-earlier-line")
		return
	}
	vrtAssert("dotenv-reference-sees-winning-value", p.Environment["Y"] == want)
	if set && explicitEmpty {
		vrtAssert("dotenv-default-used-when-empty", p.Environment["Z"] == "unset")
	} else if set {
		vrtAssert("dotenv-default-not-used-when-set", p.Environment["Z"] == want)
	} else {
		vrtAssert("dotenv-default-used-when-unset", p.Environment["Z"] == "unset")
	}
}
