package transform

import "github.com/compose-spec/compose-go/v2/tree"

// C03 (devices): SRC[:DST[:PERM]] short form against its long form.
func VerifC03Device() {
	L := vrtParam("L", 6)
	spec := vrtString("spec", L, ":/arwm")
	got, err := transformDeviceMapping(spec, tree.NewPath("services", "s", "devices", "[]"), false)
	// reference
	var parts []string
	cur := ""
	for i := 0; i < len(spec); i++ {
		if spec[i] == ':' {
			parts = append(parts, cur)
			cur = ""
		} else {
			cur += string(spec[i])
		}
	}
	parts = append(parts, cur)
	vrtObserve("err", err != nil)
	if len(parts) > 3 {
		vrtCover("reject")
		vrtAssert("rejects-too-many-sections", err != nil)
		return
	}
	vrtCover("accept")
	vrtAssert("accepts", err == nil)
	if err != nil {
		return
	}
	m, ok := got.(map[string]any)
	vrtAssert("long-form-mapping", ok)
	if !ok {
		return
	}
	src := parts[0]
	dst := src
	perm := "rwm"
	if len(parts) >= 2 && parts[1] != "" {
		dst = parts[1]
	}
	if len(parts) == 3 {
		perm = parts[2]
	}
	vrtObserve("m", m)
	vrtAssert("source", m["source"] == any(src))
	vrtAssert("target", m["target"] == any(dst))
	vrtAssert("permissions", m["permissions"] == any(perm))
}
