package types

import (
	"errors"
)

// C14: derivations copy, never alias or mutate. The project is populated by
// vrtPopulate (every exported field of every model type non-zero, from the type
// definitions, so new fields are covered automatically) and then made coherent.

func c14Project() *Project {
	p := &Project{}
	vrtPopulate(p)
	fix := func(m Services, names [2]string, deps map[string]ServiceDependency) Services {
		out := Services{}
		i := 0
		for _, k := range []string{"k1", "k2"} {
			s := m[k]
			s.Name = names[i]
			s.LabelFiles = nil
			for j := range s.EnvFiles {
				s.EnvFiles[j].Required = false
			}
			s.DependsOn = nil
			s.Extends = nil
			out[names[i]] = s
			i++
		}
		return out
	}
	p.Services = fix(p.Services, [2]string{"k1", "k2"}, nil)
	p.DisabledServices = fix(p.DisabledServices, [2]string{"d1", "d2"}, nil)
	// k1 depends on k2 (required) and on the disabled d1 (optional)
	s := p.Services["k1"]
	s.DependsOn = DependsOnConfig{"k2": ServiceDependency{Condition: "service_started", Required: true, Restart: true},
		"d1": ServiceDependency{Condition: "service_started", Required: false}}
	p.Services["k1"] = s
	// k3: a third service so that k1 -> k2 -> k3 is a chain
	k2c := p.Services["k2"]
	k3 := *k2c.deepCopy()
	k3.Name = "k3"
	p.Services["k3"] = k3
	k2 := p.Services["k2"]
	k2.DependsOn = DependsOnConfig{"k3": ServiceDependency{Condition: "service_healthy", Required: true}}
	p.Services["k2"] = k2
	return p
}

func VerifC14Immutable() {
	// schedules are C19's subject; here the worker goroutines of WithServicesTransform run without preemption
	vrtSetPreemptions(vrtParam("PREEMPT", 0))
	p := c14Project()
	before := vrtClone(p).(*Project)
	if vrtParam("MAPORDER", 0) == 1 {
		// the copies are made entry by entry: the order in which the library walks its maps must not matter
		vrtMapOrder([]int{3, 4}[vrtChoice("maporder", 2)])
	}
	nops := 1 + vrtChoice("nops", vrtParam("OPS", 2))
	cur := p
	var results []*Project
	var snaps []*Project
	for step := 0; step < nops; step++ {
		var q *Project
		var err error
		op := vrtChoice("op", 10)
		keepsResources := true
		switch op {
		case 0:
			prof := []string{before.Services["k1"].Profiles[0], "*", "zz"}[vrtChoice("profile", 3)]
			if vrtChoice("ownProfilesAsArgument", 2) == 1 {
				// the receiver's own list handed back as the argument: still no sharing
				q, err = cur.WithProfiles(cur.Profiles)
			} else {
				q, err = cur.WithProfiles([]string{prof})
			}
		case 1:
			names := [][]string{{"d1"}, {"k1"}, {}, {"d1", "d2"}, {"d2", "d1"}, {"d1", "k1"}}[vrtChoice("names", 6)]
			q, err = cur.WithServicesEnabled(names...)
		case 2:
			// one or two names, in both orders along the dependency chain k1 -> k2 -> k3
			names := [][]string{{"k2"}, {"zz"}, {"k1"}, {"k2", "k1"}, {"k1", "k2"}, {"k3", "k2"}, {"k3", "k1"}, {"k3", "k2", "k1"}}[vrtChoice("names", 8)]
			q = cur.WithServicesDisabled(names...)
		case 3:
			opt := vrtChoice("deps", 3)
			names := [][]string{{"k1"}, {"k2"}, {"k3"}, {"k2", "k1"}, {"k3", "k1"}}[vrtChoice("sel", 5)]
			switch opt {
			case 0:
				q, err = cur.WithSelectedServices(names)
			case 1:
				q, err = cur.WithSelectedServices(names, IgnoreDependencies)
			case 2:
				q, err = cur.WithSelectedServices(names, IncludeDependents)
			}
		case 4:
			q = cur.WithoutUnnecessaryResources()
			keepsResources = false
		case 5:
			q, err = cur.WithServicesEnvironmentResolved(vrtChoice("discard", 2) == 1)
		case 6:
			q, err = cur.WithServicesLabelsResolved(vrtChoice("discard", 2) == 1)
		case 7:
			fail := vrtChoice("fail", 2) == 1
			q, err = cur.WithServicesTransform(func(name string, s ServiceConfig) (ServiceConfig, error) {
				if fail && name == "k2" {
					return s, errors.New("boom")
				}
				s.ContainerName = "t-" + name
				s.Labels["added"] = "x"
				if s.Build != nil {
					s.Build.Args["added"] = nil
				}
				return s, nil
			})
		case 8:
			names := [][]string{nil, {"k1"}, {"k2"}, {"k3", "k1"}}[vrtChoice("names", 4)]
			opt := []DependencyOption{IncludeDependencies, IgnoreDependencies, IncludeDependents}[vrtChoice("deps", 3)]
			err = cur.ForEachService(names, func(name string, s *ServiceConfig) error {
				// the visitor owns what it gets: mutate every kind of nested state
				s.Labels["visited"] = "x"
				s.Environment["visited"] = nil
				if len(s.Ports) > 0 {
					s.Ports[0].Published = "mutated"
				}
				if s.Deploy != nil && s.Deploy.Replicas != nil {
					*s.Deploy.Replicas = 99
				}
				s.Image = "mutated"
				return nil
			}, opt)
			q = nil
		case 9:
			q = cur.deepCopy()
		}
		vrtObserve("err", err != nil)
		// the receiver is unchanged
		if step == 0 {
			vrtAssert("receiver-unchanged", vrtDeepEqual(any(p), any(before)))
		} else {
			vrtAssert("receiver-unchanged-later-step", vrtDeepEqual(any(cur), any(snaps[len(snaps)-1])))
			vrtAssert("original-unchanged", vrtDeepEqual(any(p), any(before)))
		}
		if q == nil || err != nil {
			break
		}
		sh := vrtShared(any(cur), any(q))
		vrtObserve("shared", sh)
		vrtAssert("no-shared-mutable-state", sh == "")
		sh0 := vrtShared(any(p), any(q))
		vrtAssert("no-shared-mutable-state-with-original", sh0 == "")
		// unaffected fields are carried over
		vrtAssert("keeps-name-workdir", q.Name == cur.Name && q.WorkingDir == cur.WorkingDir)
		vrtAssert("keeps-environment", vrtDeepEqual(any(q.Environment), any(cur.Environment)))
		vrtAssert("keeps-compose-files", vrtDeepEqual(any(q.ComposeFiles), any(cur.ComposeFiles)))
		vrtAssert("keeps-extensions", vrtDeepEqual(any(q.Extensions), any(cur.Extensions)))
		if keepsResources {
			vrtAssert("keeps-resources", vrtDeepEqual(any(q.Networks), any(cur.Networks)) && vrtDeepEqual(any(q.Volumes), any(cur.Volumes)) &&
				vrtDeepEqual(any(q.Secrets), any(cur.Secrets)) && vrtDeepEqual(any(q.Configs), any(cur.Configs)))
		}
		// every service the result still has carries all the fields the operation does not touch
		neutral := func(sv ServiceConfig) ServiceConfig {
			sv.DependsOn = nil // pruned by disabling / selecting
			sv.Environment, sv.EnvFiles = nil, nil
			sv.Labels, sv.LabelFiles = nil, nil
			sv.ContainerName = ""
			if sv.Build != nil {
				b := *sv.Build
				b.Args = nil
				sv.Build = &b
			}
			return sv
		}
		for _, set := range []Services{q.Services, q.DisabledServices} {
			for name, got := range set {
				orig, ok := cur.Services[name]
				if !ok {
					orig, ok = cur.DisabledServices[name]
				}
				if ok {
					vrtAssert("service-fields-carried-over", vrtDeepEqual(any(neutral(got)), any(neutral(orig))))
				}
			}
		}
		vrtAssert("no-service-lost", len(q.Services)+len(q.DisabledServices) == len(cur.Services)+len(cur.DisabledServices) || op == 3 || op == 2)
		results = append(results, q)
		snaps = append(snaps, vrtClone(q).(*Project))
		cur = q
	}
}
