package types

// C03 (ports): [IP:][HOST[-HOST]:]CONTAINER[-CONTAINER][/PROTO] against its long form. Port
// digits are symbolic characters, so the parsed numbers are solver terms.

func c03Num(d1, d2 byte) int { return int(d1-'0')*10 + int(d2-'0') }

func VerifC03Ports() {
	// container port c = two symbolic digits (10..97), optional range of width w (no carry)
	c1 := byte('8')
	c2 := vrtStringN("c2", 1, "01234567")[0]
	w := vrtChoice("rangeWidth", 3) // 0: single port, 1..2: range
	cont := string([]byte{c1, c2})
	if w > 0 {
		cont += "-" + string([]byte{c1, c2 + byte(w)})
	}
	hostKind := vrtChoice("host", 4) // 0 none, 1 single, 2 range of equal length, 3 range of different length
	h1 := byte('9')
	h2 := vrtStringN("h2", 1, "01234567")[0]
	host := ""
	switch hostKind {
	case 1:
		host = string([]byte{h1, h2})
	case 2:
		host = string([]byte{h1, h2}) + "-" + string([]byte{h1, h2 + byte(w)})
		if w == 0 {
			host = string([]byte{h1, h2})
		}
	case 3:
		host = string([]byte{h1, h2}) + "-" + string([]byte{h1, h2 + byte(w) + 1})
	}
	ip := []string{"", "127.0.0.1"}[vrtChoice("ip", 2)]
	proto := []string{"", "udp", "TCP", "tcp", "sctp"}[vrtChoice("proto", vrtParam("PROTOS", 3))]
	spec := cont
	if host != "" {
		spec = host + ":" + spec
	}
	if ip != "" {
		if host == "" {
			spec = ip + "::" + spec
		} else {
			spec = ip + ":" + spec
		}
	}
	if proto != "" {
		spec += "/" + proto
	}
	got, err := ParsePortConfig(spec)
	vrtObserve("err", err != nil)
	// a host range must have the same length as the container range, except a single container port
	// published on a host range (the engine picks a free port): that case is left to the third party
	if hostKind == 3 {
		if w > 0 {
			vrtAssert("unequal-ranges-rejected", err != nil)
		}
		return
	}
	if hostKind == 1 && w > 0 {
		// single host port for a container range: not covered by the statement
		return
	}
	vrtAssert("grammar-port-spec-parses", err == nil)
	if err != nil {
		return
	}
	vrtAssert("one-entry-per-container-port", len(got) == w+1)
	if len(got) != w+1 {
		return
	}
	wantProto := "tcp"
	if proto != "" {
		wantProto = proto
		if proto == "TCP" {
			wantProto = "tcp"
		}
	}
	c := c03Num(c1, c2)
	h := c03Num(h1, h2)
	for k := 0; k <= w; k++ {
		p := got[k]
		vrtObserve("target", p.Target)
		vrtAssert("target", int(p.Target) == c+k)
		vrtAssert("protocol", p.Protocol == wantProto)
		vrtAssert("mode", p.Mode == "ingress")
		vrtAssert("host-ip", p.HostIP == ip)
		switch hostKind {
		case 0:
			vrtAssert("no-published-port", p.Published == "")
		case 1, 2:
			// paired one to one with the host range
			want := []byte{h1, h2 + byte(k)}
			_ = h
			vrtAssert("published-paired", p.Published == string(want))
		}
	}
}
