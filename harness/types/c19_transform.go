package types

import "errors"

// C19 (library's own fan-out): WithServicesTransform returns exactly the per-service
// results of the supplied function and propagates its first error, under every interleaving
// of the worker goroutines within the preemption bound; no deadlock (the engine reports one
// when all goroutines are blocked).
func VerifC19Transform() {
	n := 2 + vrtChoice("services", 2)
	names := []string{"a", "b", "c"}[:n]
	p := &Project{Name: "p", Services: Services{}}
	for _, s := range names {
		p.Services[s] = ServiceConfig{Name: s, Image: "i-" + s, Labels: Labels{"k": s}}
	}
	failAt := []string{"", "a", "b"}[vrtChoice("failAt", 3)]
	vrtSetPreemptions(vrtParam("PREEMPT", 1))
	boom := errors.New("boom")
	calls := map[string]int{}
	q, err := p.WithServicesTransform(func(name string, s ServiceConfig) (ServiceConfig, error) {
		vrtLock()
		calls[name]++
		vrtUnlock()
		vrtYield()
		if name == failAt {
			return s, boom
		}
		s.ContainerName = "c-" + name
		return s, nil
	})
	vrtObserve("err", err != nil)
	if failAt != "" {
		vrtAssert("first-error-propagated", err == boom)
		return
	}
	vrtAssert("no-error", err == nil)
	if err != nil {
		return
	}
	vrtAssert("all-services-present", len(q.Services) == n)
	for _, s := range names {
		vrtAssert("function-called-once-per-service", calls[s] == 1)
		vrtAssert("exact-per-service-result", q.Services[s].ContainerName == "c-"+s && q.Services[s].Image == "i-"+s)
		vrtAssert("receiver-untouched", p.Services[s].ContainerName == "")
	}
}
