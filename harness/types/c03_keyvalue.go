package types

// C03 (KEY=VALUE attributes): the list spelling and the mapping spelling decode to the
// same typed value, for MappingWithEquals (environment), Mapping (build args style),
// Labels and HostsList-free types.
func VerifC03KeyValue() {
	L := vrtParam("L", 4)
	entry := vrtString("entry", L, "ab=:1")
	// reference split at the first '='
	k, v, hasEq := entry, "", false
	for i := 0; i < len(entry); i++ {
		if entry[i] == '=' {
			k, v, hasEq = entry[:i], entry[i+1:], true
			break
		}
	}
	// MappingWithEquals
	var fromList, fromMap MappingWithEquals
	e1 := fromList.DecodeMapstructure([]any{entry})
	var mv any
	if hasEq {
		mv = v
	}
	e2 := fromMap.DecodeMapstructure(map[string]any{k: mv})
	vrtAssert("mwe-list-decodes", e1 == nil)
	vrtAssert("mwe-map-decodes", e2 == nil)
	vrtAssert("mwe-same-size", len(fromList) == 1 && len(fromMap) == 1)
	p1, ok1 := fromList[k]
	p2, ok2 := fromMap[k]
	vrtAssert("mwe-key", ok1 && ok2)
	vrtAssert("mwe-nil-iff-no-equals", (p1 == nil) == !hasEq)
	vrtAssert("mwe-same-nilness", (p1 == nil) == (p2 == nil))
	if p1 != nil && p2 != nil {
		vrtAssert("mwe-value", *p1 == v && *p2 == v)
	}
	// Mapping
	var ml, mm Mapping
	e3 := ml.DecodeMapstructure([]any{entry})
	e4 := mm.DecodeMapstructure(map[string]any{k: v})
	vrtAssert("mapping-decodes", e3 == nil && e4 == nil)
	vrtAssert("mapping-equal", len(ml) == 1 && len(mm) == 1 && ml[k] == v && mm[k] == v)
	// Labels
	var ll, lm Labels
	e5 := ll.DecodeMapstructure([]any{entry})
	e6 := lm.DecodeMapstructure(map[string]any{k: v})
	vrtAssert("labels-decodes", e5 == nil && e6 == nil)
	vrtAssert("labels-equal", len(ll) == 1 && len(lm) == 1 && ll[k] == v && lm[k] == v)
	vrtObserve("k", k)
	vrtObserve("v", v)
	// constructors agree with the decoders
	n1 := NewMappingWithEquals([]string{entry})
	q, okq := n1[k]
	vrtAssert("new-mwe", okq && (q == nil) == !hasEq && (q == nil || *q == v))
	n2 := NewMapping([]string{entry})
	vrtAssert("new-mapping", n2[k] == v && len(n2) == 1)
}

// VerifC03Bytes: a byte size written as a string of decimal digits (leading zeros included) with an optional unit
// is that decimal number times the unit - the same value as the bare integer.
func VerifC03Bytes() {
	digits := []string{"0", "1", "7", "8", "9"}
	n := 1 + vrtChoice("digits", 3)
	s := ""
	want := int64(0)
	for k := 0; k < n; k++ {
		d := vrtChoice("digit", len(digits))
		s += digits[d]
		want = want*10 + int64(digits[d][0]-'0')
	}
	units := []string{"", "b", "k", "kb", "m", "g"}
	mult := []int64{1, 1, 1024, 1024, 1024 * 1024, 1024 * 1024 * 1024}
	u := vrtChoice("unit", len(units))
	var b UnitBytes
	err := b.DecodeMapstructure(s + units[u])
	vrtObserve("err", err != nil)
	vrtAssert("decimal-byte-size-parses", err == nil)
	if err == nil {
		vrtObserve("b", int64(b))
		vrtAssert("decimal-byte-size-value", int64(b) == want*mult[u])
	}
	// and what is not a decimal size is rejected
	bad := []string{"0x10", "0o17", "0b11", "x", "1 2", "--1"}[vrtChoice("malformed", 6)]
	var c UnitBytes
	vrtAssert("malformed-byte-size-rejected", c.DecodeMapstructure(bad) != nil)
}
