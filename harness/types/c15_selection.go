package types

// C15: profile and service selection keep a sound partition; checked against a set-based
// reference model after every step, under two map iteration orders.

type c15Ref struct {
	enabled  map[string]bool
	disabled map[string]bool
	profiles map[string][]string        // per service
	deps     map[string]map[string]bool // service -> dep -> required
	active   []string                   // project profiles
}

func (r *c15Ref) hasProfile(n string, ps []string) bool {
	if len(r.profiles[n]) == 0 {
		return true
	}
	for _, p := range ps {
		if p == "*" {
			return true
		}
		for _, sp := range r.profiles[n] {
			if sp == p {
				return true
			}
		}
	}
	return false
}

func (r *c15Ref) withProfiles(ps []string) {
	e, d := map[string]bool{}, map[string]bool{}
	for _, n := range []string{"a", "b", "c"} {
		if !r.enabled[n] && !r.disabled[n] {
			continue
		}
		if r.hasProfile(n, ps) {
			e[n] = true
		} else {
			d[n] = true
		}
	}
	r.enabled, r.disabled, r.active = e, d, ps
}

func (r *c15Ref) disable(n string) {
	for s := range r.enabled {
		delete(r.deps[s], n)
	}
	if r.enabled[n] {
		delete(r.enabled, n)
		r.disabled[n] = true
	}
}

// selectSet computes the selected set; ok=false when the selection must fail.
func (r *c15Ref) selectSet(names []string, policy int) (map[string]bool, bool) {
	set := map[string]bool{}
	ok := true
	var visit func(list []string, info map[string]bool)
	visit = func(list []string, info map[string]bool) {
		for _, n := range list {
			if !r.enabled[n] {
				if req, known := info[n]; !known || req {
					ok = false
				}
			}
		}
		for _, n := range list {
			if !r.enabled[n] || set[n] {
				continue
			}
			set[n] = true
			next := map[string]bool{}
			switch policy {
			case 0: // dependencies
				for d, req := range r.deps[n] {
					next[d] = req
				}
			case 2: // dependents
				for s := range r.enabled {
					if req, dep := r.deps[s][n]; dep {
						next[s] = req
					}
				}
			}
			if len(next) > 0 {
				var keys []string
				for k := range next {
					keys = append(keys, k)
				}
				visit(keys, next)
			}
		}
	}
	visit(names, map[string]bool{})
	return set, ok
}

func c15Build(prof [3]int, edges [3]int) (*Project, *c15Ref) {
	names := []string{"a", "b", "c"}
	profSets := [][]string{nil, {"p"}, {"q"}, {"p", "q"}}
	p := &Project{Name: "n", Services: Services{}, DisabledServices: Services{},
		// every kind also holds unreferenced resources that carry the name of a referenced resource of another kind
		Networks: Networks{"n1": {Name: "n1"}, "n2": {Name: "n2"}, "n3": {Name: "n3"}, "unused": {Name: "u"}, "v1": {Name: "hn"}, "s1": {Name: "hn2"}},
		Volumes:  Volumes{"v1": {Name: "v1"}, "v2": {Name: "v2"}, "unusedv": {Name: "uv"}, "n1": {Name: "hv"}, "c1": {Name: "hv2"}},
		Secrets:  Secrets{"s1": {Name: "s1", File: "/f"}, "s2": {Name: "s2", File: "/f"}, "unuseds": {Name: "us", File: "/f"}, "c1": {Name: "hs", File: "/f"}, "n3": {Name: "hs2", File: "/f"}},
		Configs:  Configs{"c1": {Name: "c1", File: "/f"}, "unusedc": {Name: "uc", File: "/f"}, "s1": {Name: "hc", File: "/f"}, "v2": {Name: "hc2", File: "/f"}}}
	r := &c15Ref{enabled: map[string]bool{}, disabled: map[string]bool{}, profiles: map[string][]string{}, deps: map[string]map[string]bool{}}
	for i, n := range names {
		s := ServiceConfig{Name: n, Image: "i", Profiles: profSets[prof[i]], DependsOn: DependsOnConfig{}}
		r.profiles[n] = profSets[prof[i]]
		r.deps[n] = map[string]bool{}
		switch n {
		case "a":
			s.Networks = map[string]*ServiceNetworkConfig{"n1": nil}
			s.Secrets = []ServiceSecretConfig{{Source: "s1"}}
		case "b":
			s.Networks = map[string]*ServiceNetworkConfig{"n2": nil, "n3": nil}
			// mounts of every kind in front of the named volumes
			s.Volumes = []ServiceVolumeConfig{{Type: "bind", Source: "/h", Target: "/h"}, {Type: "tmpfs", Target: "/tmp"}, {Type: "volume", Target: "/anon"},
				{Type: "volume", Source: "v1", Target: "/t"}, {Type: "volume", Source: "v2", Target: "/u"}}
			s.Configs = []ServiceConfigObjConfig{{Source: "c1"}}
		case "c":
			s.Networks = map[string]*ServiceNetworkConfig{"n3": nil}
			s.Volumes = []ServiceVolumeConfig{{Type: "volume", Source: "v2", Target: "/u"}}
			s.Secrets = []ServiceSecretConfig{{Source: "s2"}, {Source: "s1"}}
		}
		p.Services[n] = s
		r.enabled[n] = true
	}
	// edges: a->b, a->c, b->c ; 0 none 1 required 2 optional
	pairs := [][2]string{{"a", "b"}, {"a", "c"}, {"b", "c"}}
	for i, e := range edges {
		if e == 0 {
			continue
		}
		s := p.Services[pairs[i][0]]
		s.DependsOn[pairs[i][1]] = ServiceDependency{Condition: "service_started", Required: e == 1}
		p.Services[pairs[i][0]] = s
		r.deps[pairs[i][0]][pairs[i][1]] = e == 1
	}
	return p, r
}

func c15Check(p *Project, r *c15Ref) {
	vrtAssert("enabled-set", len(p.Services) == len(r.enabled))
	vrtAssert("disabled-set", len(p.DisabledServices) == len(r.disabled))
	for n := range r.enabled {
		s, ok := p.Services[n]
		vrtAssert("enabled-member", ok)
		_, both := p.DisabledServices[n]
		vrtAssert("partition-disjoint", !both)
		if ok {
			vrtAssert("depends-on-size", len(s.DependsOn) == len(r.deps[n]))
			for d, req := range r.deps[n] {
				x, has := s.DependsOn[d]
				vrtAssert("depends-on-entry", has && x.Required == req)
			}
		}
	}
	for n := range r.disabled {
		_, ok := p.DisabledServices[n]
		vrtAssert("disabled-member", ok)
	}
}

func VerifC15Selection() {
	var prof [3]int
	var edges [3]int
	for i := range prof {
		prof[i] = vrtChoice("profile", vrtParam("PROFS", 3))
	}
	if vrtParam("NOEDGES", 0) == 0 {
		edges[0] = vrtChoice("edge-ab", 3)
		edges[1] = vrtChoice("edge-ac", 3)
		edges[2] = vrtChoice("edge-bc", 3)
	}
	p, r := c15Build(prof, edges)
	steps := 1 + vrtChoice("steps", vrtParam("OPS", 2))
	if vrtParam("SEQ", 0) != 0 {
		steps = vrtParam("OPS", 2)
	}
	for st := 0; st < steps; st++ {
		op := 0
		switch {
		case vrtParam("SEQ", 0) == 1:
			// fixed pattern: select profiles, disable a service, enable a service
			op = []int{0, 2, 1}[st%3]
		case vrtParam("SEQ", 0) == 2:
			// fixed pattern: disable or select, then select profiles
			if st == 0 {
				op = []int{2, 3}[vrtChoice("firstop", 2)]
			} else {
				op = 0
			}
		case st > 0 || vrtParam("FIRSTPROFILES", 0) == 0:
			op = vrtChoice("op", 5)
		}
		apply := func() (*Project, error) { return nil, nil }
		expectErr := false
		switch op {
		case 0:
			// the wildcard alone, first, last; a profile nobody has; two profiles in both orders
			ps := [][]string{{}, {"p"}, {"q"}, {"*"}, {"p", "q"}, {"q", "p"}, {"zz", "*"}, {"*", "zz"}, {"zz"}, {"q", "*", "zz"}}[vrtChoice("profiles", 10)]
			apply = func() (*Project, error) { return p.WithProfiles(ps) }
			r.withProfiles(ps)
		case 1:
			names := [][]string{{"a"}, {"b"}, {"c"}, {"a", "b"}, {"b", "a"}}[vrtChoice("names", 5)]
			apply = func() (*Project, error) { return p.WithServicesEnabled(names...) }
			act := append([]string{}, r.active...)
			for _, n := range names {
				if !r.enabled[n] {
					act = append(act, r.profiles[n]...)
				}
			}
			r.withProfiles(act)
		case 2:
			n := []string{"a", "b", "c", "zz"}[vrtChoice("name", 4)]
			apply = func() (*Project, error) { return p.WithServicesDisabled(n), nil }
			r.disable(n)
		case 3:
			n := []string{"a", "b", "c", "zz"}[vrtChoice("name", 4)]
			policy := vrtChoice("policy", 3)
			opt := []DependencyOption{IncludeDependencies, IgnoreDependencies, IncludeDependents}[policy]
			apply = func() (*Project, error) { return p.WithSelectedServices([]string{n}, opt) }
			set, ok := r.selectSet([]string{n}, policy)
			if !ok {
				expectErr = true
			} else {
				for _, s := range []string{"a", "b", "c"} {
					if r.enabled[s] && !set[s] {
						r.disable(s)
					}
				}
				for s := range r.enabled {
					for d := range r.deps[s] {
						if !set[d] {
							delete(r.deps[s], d)
						}
					}
				}
			}
		case 4:
			apply = func() (*Project, error) { return p.WithoutUnnecessaryResources(), nil }
		}
		q, err := apply()
		// repeated under another order of the library's map ranges (sorted descending; insertion order is ascending here)
		vrtMapOrder(4)
		q2, err2 := apply()
		vrtMapOrder(0)
		vrtObserve("err", err != nil)
		vrtAssert("same-outcome-on-repetition", (err != nil) == (err2 != nil))
		if expectErr {
			vrtAssert("selection-of-unavailable-service-fails", err != nil)
			return
		}
		vrtAssert("operation-succeeds", err == nil)
		if err != nil || err2 != nil {
			return
		}
		vrtAssert("deterministic-result", vrtDeepEqual(any(q), any(q2)))
		c15Check(q, r)
		if op == 4 {
			ea, eb, ec := r.enabled["a"], r.enabled["b"], r.enabled["c"]
			has := func(ok bool, want bool, what string) {
				vrtAssert("prune-keeps-exactly-referenced#"+what, ok == want)
			}
			_, ok := q.Networks["n1"]
			has(ok, ea, "n1")
			_, ok = q.Networks["n2"]
			has(ok, eb, "n2")
			_, ok = q.Networks["n3"]
			has(ok, eb || ec, "n3")
			_, ok = q.Networks["unused"]
			has(ok, false, "unused-network")
			_, ok = q.Volumes["v1"]
			has(ok, eb, "v1")
			_, ok = q.Volumes["v2"]
			has(ok, eb || ec, "v2")
			_, ok = q.Volumes["unusedv"]
			has(ok, false, "unused-volume")
			_, ok = q.Secrets["s1"]
			has(ok, ea || ec, "s1")
			_, ok = q.Secrets["s2"]
			has(ok, ec, "s2")
			_, ok = q.Secrets["unuseds"]
			has(ok, false, "unused-secret")
			_, ok = q.Configs["c1"]
			has(ok, eb, "c1")
			_, ok = q.Configs["unusedc"]
			has(ok, false, "unused-config")
			// homonyms of referenced resources of another kind are not referenced themselves
			_, ok = q.Networks["v1"]
			has(ok, false, "network-named-like-a-volume")
			_, ok = q.Networks["s1"]
			has(ok, false, "network-named-like-a-secret")
			_, ok = q.Volumes["n1"]
			has(ok, false, "volume-named-like-a-network")
			_, ok = q.Volumes["c1"]
			has(ok, false, "volume-named-like-a-config")
			_, ok = q.Secrets["c1"]
			has(ok, false, "secret-named-like-a-config")
			_, ok = q.Secrets["n3"]
			has(ok, false, "secret-named-like-a-network")
			_, ok = q.Configs["s1"]
			has(ok, false, "config-named-like-a-secret")
			_, ok = q.Configs["v2"]
			has(ok, false, "config-named-like-a-volume")
		}
		if op == 1 {
			// enabling activates the profiles of the service
			for _, sp := range r.active {
				found := false
				for _, qp := range q.Profiles {
					if qp == sp {
						found = true
					}
				}
				vrtAssert("enabled-service-profiles-active", found)
			}
		}
		p = q
	}
}
