package paths

import "path/filepath"

// C12: relative paths resolve against the base directory, everything else is untouched.
// Attribute table and path classes are written from the property statement (DESIGN A.3).

func c12IsLetter(c byte) bool { return (c >= 'a' && c <= 'z') || (c >= 'A' && c <= 'Z') }

func c12HasPrefix(s, p string) bool { return len(s) >= len(p) && s[:len(p)] == p }

func c12Contains(s, sub string) bool {
	for i := 0; i+len(sub) <= len(s); i++ {
		if s[i:i+len(sub)] == sub {
			return true
		}
	}
	return false
}

func c12Remote(v string) bool {
	if c12Contains(v, "://") {
		return true
	}
	for _, p := range []string{"https://", "http://", "git://", "ssh://", "github.com/", "git@"} {
		if c12HasPrefix(v, p) {
			return true
		}
	}
	return false
}

// windows absolute: drive letter + ':' + slash, or UNC \\server\share...
func c12WinAbsDrive(v string) bool {
	return len(v) >= 3 && c12IsLetter(v[0]) && v[1] == ':' && (v[2] == '\\' || v[2] == '/')
}

type c12Site struct {
	kind int // 0 build.context 1 additional_contexts 2 env_file path 3 label_file 4 bind source 5 secret file 6 config file 7 volume device 8 env_file short
}

func c12Doc(kind int, v string) (map[string]any, func(m map[string]any) any) {
	svc := map[string]any{"image": "i"}
	doc := map[string]any{"services": map[string]any{"s": svc}}
	get := func(m map[string]any) map[string]any { return m["services"].(map[string]any)["s"].(map[string]any) }
	switch kind {
	case 0:
		svc["build"] = map[string]any{"context": v}
		return doc, func(m map[string]any) any { return get(m)["build"].(map[string]any)["context"] }
	case 1:
		svc["build"] = map[string]any{"context": "/abs", "additional_contexts": map[string]any{"k": v}}
		return doc, func(m map[string]any) any {
			return get(m)["build"].(map[string]any)["additional_contexts"].(map[string]any)["k"]
		}
	case 2:
		svc["env_file"] = []any{map[string]any{"path": v, "required": true}}
		return doc, func(m map[string]any) any { return get(m)["env_file"].([]any)[0].(map[string]any)["path"] }
	case 3:
		svc["label_file"] = []any{v}
		return doc, func(m map[string]any) any { return get(m)["label_file"].([]any)[0] }
	case 4:
		svc["volumes"] = []any{map[string]any{"type": "bind", "source": v, "target": "/t"}}
		return doc, func(m map[string]any) any { return get(m)["volumes"].([]any)[0].(map[string]any)["source"] }
	case 5:
		doc["secrets"] = map[string]any{"x": map[string]any{"file": v}}
		return doc, func(m map[string]any) any { return m["secrets"].(map[string]any)["x"].(map[string]any)["file"] }
	case 6:
		doc["configs"] = map[string]any{"x": map[string]any{"file": v}}
		return doc, func(m map[string]any) any { return m["configs"].(map[string]any)["x"].(map[string]any)["file"] }
	case 7:
		doc["volumes"] = map[string]any{"x": map[string]any{"driver": "local", "driver_opts": map[string]any{"o": "bind", "device": v}}}
		return doc, func(m map[string]any) any {
			return m["volumes"].(map[string]any)["x"].(map[string]any)["driver_opts"].(map[string]any)["device"]
		}
	}
	panic("kind")
}

func VerifC12Resolve() {
	kind := vrtChoice("attr", 8)
	alpha := "./~\\:aC"
	if kind <= 1 {
		alpha = "./~:ahtps@gi" // URL-ish shapes only matter for build contexts
	}
	v := vrtString("path", vrtParam("L", 5), alpha)
	vrtAssume(len(v) > 0)
	home := "/home/u"
	vrtEnv("HOME", home)
	base := "/w/p"
	doc, get := c12Doc(kind, v)
	// untouched sample next to the path attribute
	svc := doc["services"].(map[string]any)["s"].(map[string]any)
	svc["working_dir"] = v
	svc["command"] = []any{v}
	svc["container_name"] = v
	svc["volumes_extra"] = nil
	delete(svc, "volumes_extra")
	err := ResolveRelativePaths(doc, base, nil)
	vrtObserve("err", err != nil)
	vrtAssert("resolves", err == nil)
	if err != nil {
		return
	}
	got, _ := get(doc).(string)
	vrtObserve("got", got)
	// expectation
	mountLike := kind == 4 || kind == 5 || kind == 6 || kind == 7
	want := ""
	switch {
	case kind <= 1 && c12Remote(v):
		want = v
		vrtCover("remote")
	case v[0] == '~':
		want = filepath.Join(home, v[1:])
		vrtCover("home")
	case v[0] == '/':
		want = v
		vrtCover("absolute")
	case mountLike && (c12WinAbsDrive(v) || (len(v) >= 2 && v[0] == '\\' && (v[1] == '\\' || v[1] == '/'))):
		if !c12WinAbsDrive(v) {
			// UNC paths: the exact server/share grammar is not part of the statement; only complete
			// \\server\share shapes are meant. Not asserted.
			vrtCover("unc")
			return
		}
		want = v
		vrtCover("windows-absolute")
	default:
		want = filepath.Join(base, v)
		vrtCover("relative")
	}
	vrtAssert("path-value", got == want)
	if want != v || v[0] == '/' {
		vrtAssert("absolute-after-resolution", len(got) > 0 && (got[0] == '/' || (mountLike && c12WinAbsDrive(got)) || (kind <= 1 && c12Remote(got))))
	}
	// non-path attributes untouched
	vrtAssert("working_dir-untouched", svc["working_dir"] == any(v))
	vrtAssert("container_name-untouched", svc["container_name"] == any(v))
	vrtAssert("command-untouched", svc["command"].([]any)[0] == any(v))
	// idempotence
	err2 := ResolveRelativePaths(doc, base, nil)
	vrtAssert("resolves-again", err2 == nil)
	if err2 == nil {
		again, _ := get(doc).(string)
		vrtAssert("idempotent", again == got)
	}
}

// VerifC12NamedVolume: non-bind mounts keep their source.
func VerifC12NamedVolume() {
	v := vrtString("src", vrtParam("L", 4), "./~a")
	vrtAssume(len(v) > 0)
	t := []string{"volume", "tmpfs", "npipe", "cluster"}[vrtChoice("type", 4)]
	doc := map[string]any{"services": map[string]any{"s": map[string]any{"image": "i", "volumes": []any{map[string]any{"type": t, "source": v, "target": "/t"}}}}}
	err := ResolveRelativePaths(doc, "/w/p", nil)
	vrtAssert("resolves", err == nil)
	got := doc["services"].(map[string]any)["s"].(map[string]any)["volumes"].([]any)[0].(map[string]any)["source"]
	vrtAssert("named-volume-source-untouched", got == any(v))
}
