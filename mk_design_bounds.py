#!/usr/bin/env python3
"""Rewrites the generated bounds table in DESIGN.md (between the BOUNDS-BEGIN / BOUNDS-END markers) from checks.json."""
import json, re
c = json.load(open('/verif/checks.json'))
rows = []
for x in sorted(c, key=lambda x: x['property']):
    if not x['property'].startswith('C'):
        continue
    for h in x['harnesses']:
        def fmt(p):
            if not p:
                return '-'
            return ' '.join(f'{k}={v}' for k, v in p.items())
        rows.append(f"| {x['property']} | {h['pkg']}.{h['fn']} | {fmt(h.get('quick'))} | {fmt(h.get('thorough'))} | {h.get('note','').replace('|','/')} |")
table = "| property | harness | quick parameters | thorough parameters | note |\n|---|---|---|---|---|\n" + "\n".join(rows) + "\n"
s = open('/verif/DESIGN.md').read()
begin, end = '<!-- BOUNDS-BEGIN -->', '<!-- BOUNDS-END -->'
block = f"{begin}\n{table}{end}"
if begin in s:
    s = re.sub(re.escape(begin) + r'.*?' + re.escape(end), lambda m: block, s, flags=re.S)
else:
    s = s.rstrip('\n') + "\n\n### 11.10 Registered harness entries and bounds (generated from checks.json by mk_design_bounds.py)\n\nParameters are harness bounds (string lengths L/VL/IL/..., token counts TOK, operation counts OPS, preemption bound PREEMPT, dimension switches HISTORY / ROUTE / PAIR / DOTTED / FREEYIELD / CANCEL ...); `timeout_s` is the exploration budget - an exploration that does not finish within it is reported INCONCLUSIVE, never as success. `-` means the entry is not part of that tier.\n\n" + block + "\n"
open('/verif/DESIGN.md', 'w').write(s)
print(len(rows), 'entries')
