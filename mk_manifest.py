#!/usr/bin/env python3
"""Regenerates MANIFEST.json from checks.json + the per-property texts below."""
import json, os
V = os.path.dirname(os.path.abspath(__file__))
checks = {c["property"]: c for c in json.load(open(os.path.join(V, "checks.json")))}
props = [json.loads(l) for l in open(os.path.join(V, "properties.jsonl"))]

TEXT = json.load(open(os.path.join(V, "manifest_texts.json")))

baseline = json.load(open("/root/.vp/BASELINE.json"))["cmd"] if os.path.exists("/root/.vp/BASELINE.json") else "cd /repo && go test ./..."

m = {
 "version": 1,
 "setup_cmd": "cd /verif/engine && GOFLAGS=-mod=mod GOPROXY=off GOSUMDB=off GOTOOLCHAIN=local go build -o /verif/bin/symx ./cmd/symx && /verif/bin/symx selftest",
 "hooks": {
  "guard": "verif",
  "enable": "no source hook is needed: harnesses are injected as go/packages overlays (engine) and `go test -overlay` (native replay); /repo is never written",
  "baseline_off_cmd": "cd /repo && go test -vet=off -count=1 -timeout 25m ./...",
  "source_commits": [],
  "add_only": True
 },
 "engines": [{
  "name": "symx",
  "path": "/verif/engine",
  "serves_properties": sorted(checks.keys()),
  "kind_free_text": "bounded symbolic execution of compose-go's go/ssa form (fork of x/tools ssa/interp with symbolic scalars/strings, decision-replay path exploration, one z3 -in pipe per worker); every path's assertions and runtime checks are discharged by the SMT solver; counterexamples are replayed natively with go test -overlay"
 }],
 "checks": [],
 "not_applicable": [],
 "notes": "All checks: /verif/bin/check <ID> --tier quick|thorough. INCONCLUSIVE lines (exit 0) report undecided paths, never success. See DESIGN.md."
}
for p in props:
    pid = p["id"]
    if pid in checks and pid in TEXT and not TEXT[pid].get("na"):
        t = TEXT[pid]
        m["checks"].append({
         "property_id": pid,
         "quick_cmd": f"/verif/bin/check {pid} --tier quick",
         "thorough_cmd": f"/verif/bin/check {pid} --tier thorough",
         "evidence_file": f"/verif/evidence/{pid}.json",
         "replay_cmd_template": "/verif/bin/check replay {path}",
         "engine": "symx",
         "level_claimed": {"category": "model_checking", "text": t["level"], "design_ref": t.get("design_ref", "DESIGN.md section 6")},
         "level_note": t["note"],
         "technique": t.get("technique", "bounded symbolic execution of the real code (go/ssa) with SMT (z3) discharge of every path's assertions; native replay of counterexamples")
        })
    else:
        reason = TEXT.get(pid, {}).get("na") or "no check built yet in this round; the property is not claimed"
        m["not_applicable"].append({"property_id": pid, "reason": reason})
json.dump(m, open(os.path.join(V, "MANIFEST.json"), "w"), indent=1)
print("checks:", [c["property_id"] for c in m["checks"]], "n/a:", [c["property_id"] for c in m["not_applicable"]])
